"""C39 odict / lodict / modict / oset against reference models (engine B).

Models: a plain ``dict`` (insertion ordered), the same with lower-cased keys,
an ordered dict of value lists, and a duplicate-free list.  Every step compares
return value / rejection and the full observable state (all views: items,
keys, values, iteration, len, the raw dict behind the ordered view).
"""
import copy
import pickle

from vf import hist
from vf.hist import RET, OK, REJECT, RAISES, UNJUDGED

LEVEL = "exploration"
RULE = ("operation sequences over a small key universe {a,b,c,A,Ab,ab} on odict, lodict, modict and over "
        "{1,2,3,'a','b'} on oset: (1) every sequence up to a bounded length over a core alphabet (length<=3 quick, "
        "<=4 thorough) and over the full alphabet (length<=2) - identical for every seed; (2) seeded random "
        "sequences of 4..40 operations from the full generator.  distinct = distinct (container, operation list); "
        "non-trivial = at least two operations of which at least one changed the container")
RULE = __import__("vf.core", fromlist=["rule_add"]).rule_add(RULE, 'also pickle round trips at every protocol (0..5), pops whose default is the stored value itself')
META = {"engine": "B history",
        "technique": "runtime monitoring: real container and executable reference model stepped together, "
                     "return value / rejection / full state compared after every operation",
        "level_text": "bounded-exhaustive short histories plus seeded random long histories over a small colliding "
                      "key universe; decides the property only for the histories produced",
        "level_note": "trusts the reference models in vf/checks/c39.py (plain dict / list semantics of CPython) and "
                      "the generators; result order of non-in-place set algebra and == between differently ordered "
                      "osets are not judged (statement silent)"}

KEYS = ["a", "b", "c", "A", "Ab", "ab"]
SETELEMS = [1, 2, 3, "a", "b"]


def _classes():
    from ioflo.aid.odicting import odict, lodict, modict
    from ioflo.aid.osetting import oset
    return {"odict": odict, "lodict": lodict, "modict": modict, "oset": oset}


# --------------------------------------------------------------------------
# odict / lodict

def od_state(d):
    return {"t": type(d).__name__, "items": d.items(), "keys": d.keys(), "values": d.values(),
            "iter": list(d), "len": len(d), "iterkeys": list(d.iterkeys()), "iteritems": list(d.iteritems()),
            "itervalues": list(d.itervalues()), "raw": sorted(dict.keys(d)),
            "rawitems": sorted([k, dict.__getitem__(d, k)] for k in dict.keys(d))}


def od_model_state(tname, m):
    items = [[k, v] for k, v in m.items()]
    keys = list(m)
    vals = list(m.values())
    return {"t": tname, "items": items, "keys": keys, "values": vals, "iter": keys, "len": len(m),
            "iterkeys": keys, "iteritems": items, "itervalues": vals, "raw": sorted(keys),
            "rawitems": sorted(items)}


def build_arg(cls, odict, form, pairs):
    """-> (positional args, keyword args) for update / create / constructor"""
    pairs = [tuple(p) for p in pairs]
    if form == "pairs":
        return ([pairs], {})
    if form == "dict":
        return ([dict(pairs)], {})
    if form == "odict":
        return ([odict(pairs)], {})
    if form == "same":
        return ([cls(pairs)], {})
    if form == "kw":
        return ([], dict(pairs))
    if form == "mixed":
        h = len(pairs) // 2
        return ([pairs[:h]], dict(pairs[h:]))
    if form == "gen":
        return ([(p for p in pairs)], {})
    raise ValueError(form)


class OdRun(object):
    def __init__(self, spec):
        self.spec = spec
        self.cls = spec.cls
        self.d = self.cls()
        self.m = {}
        self.lower = spec.name == "lodict"
        self.shadow = None

    def L(self, k):
        return k.lower() if self.lower else k

    def eff(self, form, pairs):
        """the (key, value) stream the argument object built by build_arg() yields"""
        def collapse(ps, low=False):
            d = {}
            for k, v in ps:
                d[k.lower() if low else k] = v
            return list(d.items())
        if form in ("dict", "odict", "kw"):
            return collapse(pairs)
        if form == "same":
            return collapse(pairs, self.lower)
        if form == "mixed":
            h = len(pairs) // 2
            return list(pairs[:h]) + collapse(pairs[h:])
        return pairs

    # ---- model
    def model(self, op):
        m, L = self.m, self.L
        n = op[0]
        if n == "set":
            m[L(op[1])] = op[2]
            return OK
        if n == "del":
            if L(op[1]) not in m:
                return RAISES("KeyError")
            del m[L(op[1])]
            return OK
        if n == "get":
            if L(op[1]) not in m:
                return RAISES("KeyError")
            return RET(m[L(op[1])])
        if n == "getd":
            return RET(m.get(L(op[1]), "D"))
        if n == "in":
            return RET(L(op[1]) in m)
        if n == "pop":
            if L(op[1]) not in m:
                return RAISES("KeyError")
            return RET(m.pop(L(op[1])))
        if n == "popd":
            # the default may be the very object the key holds (pop(k, None) on a key holding None)
            return RET(m.pop(L(op[1]), m.get(L(op[1]), "D") if op[2:] == ["@same"] else "D"))
        if n == "popitem":
            if not m:
                return RAISES("KeyError")
            return RET(list(m.popitem()))
        if n == "setdefault":
            return RET(m.setdefault(L(op[1]), op[2]))
        if n in ("update", "ctor"):
            if n == "ctor":
                m.clear()
            for k, v in self.eff(op[1], op[2]):
                m[L(k)] = v
            return OK
        if n == "ior":
            for k, v in self.eff("dict", op[1]):
                m[L(k)] = v
            return OK
        if n == "create":
            for k, v in self.eff(op[1], op[2]):
                if L(k) not in m:
                    m[L(k)] = v
            return OK
        if n == "append":
            if L(op[1]) in m:
                return REJECT
            m[L(op[1])] = op[2]
            return OK
        if n == "insert":
            i, k, v = op[1], L(op[2]), op[3]
            if k in m:
                return REJECT
            items = list(m.items())
            items.insert(i, (k, v))
            m.clear()
            m.update(items)
            return OK
        if n == "clear":
            m.clear()
            return OK
        if n in ("copy", "pickle", "deepcopy", "copycopy"):
            return RET(od_model_state(self.spec.name, m))
        if n == "sift":
            if op[1] is None:
                return RET(od_model_state(self.spec.name, m))
            if any(L(f) not in m for f in op[1]):
                return RAISES("KeyError")
            r = {}
            for f in op[1]:
                r[L(f)] = m[L(f)]
            return RET(od_model_state(self.spec.name, r))
        if n == "reorder" and op[1] == "self":
            return OK          # every key moved to the end in its own order: nothing changes
        if n == "reorder":
            ep = self.eff("odict", op[1])
            if len(set(L(k) for k, _ in ep)) != len(ep):
                # distinct keys of the argument merge when lower-cased: the resulting order is not
                # specified, the resulting mapping is (checked in resync)
                want = dict(m)
                for k, v in ep:
                    want[L(k)] = v
                self.unordered = want
                return UNJUDGED
            for k, v in ep:
                k = L(k)
                m.pop(k, None)
                m[k] = v
            return OK
        if n == "eq":
            other = {}
            for k, v in op[1]:
                other[k] = v
            return RET([m == other, m == other, not (m == other)])
        if n == "fromkeys":
            r = {}
            for k in op[1]:
                r[L(k)] = op[2]
            return RET(od_model_state(self.spec.name, r))
        raise ValueError(op)

    # ---- real
    def real(self, op):
        d, cls = self.d, self.cls
        odict = self.spec.odict
        n = op[0]
        if n == "set":
            d[op[1]] = op[2]
            return None
        if n == "del":
            del d[op[1]]
            return None
        if n == "get":
            return d[op[1]]
        if n == "getd":
            return d.get(op[1], "D")
        if n == "in":
            return op[1] in d
        if n == "pop":
            return d.pop(op[1])
        if n == "popd":
            return d.pop(op[1], d.get(op[1], "D") if op[2:] == ["@same"] else "D")
        if n == "popitem":
            return d.popitem()
        if n == "setdefault":
            return d.setdefault(op[1], op[2])
        if n == "update":
            pa, kwa = build_arg(cls, odict, op[1], op[2])
            return d.update(*pa, **kwa)
        if n == "create":
            pa, kwa = build_arg(cls, odict, op[1], op[2])
            return d.create(*pa, **kwa)
        if n == "ctor":
            pa, kwa = build_arg(cls, odict, op[1], op[2])
            self.d = cls(*pa, **kwa)
            return None
        if n == "ior":
            d |= dict([tuple(p) for p in op[1]])
            if d is not self.d:
                raise AssertionError("|= returned another object")
            return None
        if n == "append":
            return d.append(op[1], op[2])
        if n == "insert":
            return d.insert(op[1], op[2], op[3])
        if n == "clear":
            return d.clear()
        if n in ("copy", "pickle", "deepcopy", "copycopy"):
            if n == "copy":
                c = d.copy()
            elif n == "pickle":
                c = pickle.loads(pickle.dumps(d, op[1]))
            elif n == "deepcopy":
                c = copy.deepcopy(d)
            else:
                c = copy.copy(d)
            if c is d:
                raise AssertionError("copy is the same object")
            self.shadow = (d, hist.norm(od_state(d)))
            self.d = c
            return od_state(c)
        if n == "sift":
            return od_state(d.sift(op[1]))
        if n == "reorder" and op[1] == "self":
            return d.reorder(d)
        if n == "reorder":
            return d.reorder(odict([tuple(p) for p in op[1]]))
        if n == "eq":
            pairs = [tuple(p) for p in op[1]]
            return [d == dict(pairs), d == cls(pairs), d != dict(pairs)]
        if n == "fromkeys":
            return od_state(cls.fromkeys(op[1], op[2]))
        raise ValueError(op)

    def real_state(self):
        s = od_state(self.d)
        s["shadow_intact"] = self.shadow is None or hist.norm(od_state(self.shadow[0])) == self.shadow[1]
        return s

    def model_state(self):
        s = od_model_state(self.spec.name, self.m)
        s["shadow_intact"] = True
        return s

    def resync(self):
        problem = None
        want = getattr(self, "unordered", None)
        self.unordered = None
        if want is not None:
            got = dict(self.d.items())
            if got != want or sorted(dict.keys(self.d)) != sorted(want):
                problem = "mapping after the operation is %r, expected (in any order) %r" % (
                    sorted(got.items()), sorted(want.items()))
        self.m = dict(self.d.items())
        return problem


def _haskey_upper(op):
    def up(x):
        if isinstance(x, str):
            return x != x.lower()
        if isinstance(x, (list, tuple)):
            return any(up(y) for y in x)
        return False
    return any(up(x) for x in op[1:])


def _lowered(x):
    if isinstance(x, str):
        return x.lower()
    if isinstance(x, (list, tuple)):
        return [_lowered(y) for y in x]
    return x


class OdSpec(object):
    def __init__(self, name):
        cl = _classes()
        self.name = name
        self.tag = {"odict": "od", "lodict": "lo"}[name]
        self.cls = cl[name]
        self.odict = cl["odict"]

    def new(self):
        return OdRun(self)

    def key(self, div):
        n = div["op"][0]
        base = {"popd": "pop", "getd": "get"}.get(n, n)
        if n == "ior" and div["kind"] in ("state", "raised"):
            return "%s/ior/keys-not-tracked" % ("odict" if self.name in ("odict", "lodict") else self.name)
        if self.name == "lodict" and _haskey_upper(div["op"]) and base in (
                "pop", "insert", "create", "sift", "reorder") and div["kind"] in ("raised", "return", "state",
                                                                                 "accepted", "invariant"):
            # causal test: the same history with the failing operation's keys written in lower case agrees
            ops = div.get("ops")
            if ops:
                d2, _, _ = hist.run_sequence(self, ops[:-1] + [_lowered(ops[-1])])
                if d2 is None:
                    return "lodict/%s/case-sensitive" % base
        return None

    def quarantined(self, op):
        return self.name == "lodict" and _haskey_upper(op) and op[0] in ("pop", "popd", "insert", "create", "sift",
                                                                         "reorder")

    # ---- generators
    def pairs(self, rng, nmax=3):
        return [[rng.choice(KEYS), rng.randrange(100)] for _ in range(rng.randint(0, nmax))]

    def random_op(self, rng):
        k = rng.choice(KEYS)
        v = rng.randrange(100)
        n = rng.choice(["set", "set", "set", "del", "get", "getd", "in", "pop", "popd", "popitem", "setdefault",
                        "update", "update", "create", "append", "insert", "insert", "clear", "copy", "pickle",
                        "deepcopy", "copycopy", "sift", "reorder", "eq", "fromkeys", "ctor", "ior"])
        if n in ("set", "setdefault", "append"):
            return [n, k, v]
        if n == "popd" and v % 2 == 0:
            return [n, k, "@same"]       # (decided from the value drawn above: the other operations stay what they were)
        if n in ("del", "get", "getd", "in", "pop", "popd"):
            return [n, k]
        if n in ("popitem", "clear", "copy", "deepcopy", "copycopy"):
            return [n] if rng.random() < 0.9 or n != "clear" else [n]
        if n in ("update", "create", "ctor"):
            return [n, rng.choice(["pairs", "dict", "odict", "same", "kw", "mixed", "gen"]), self.pairs(rng)]
        if n == "ior":
            return [n, self.pairs(rng)]
        if n == "insert":
            return [n, rng.randint(-2, 4), k, v]
        if n == "pickle":
            return [n, rng.choice([2, 3, 4, 5, 0, 1])]
        if n == "sift":
            return [n, None if rng.random() < 0.2 else [rng.choice(KEYS) for _ in range(rng.randint(0, 3))]]
        if n == "reorder":
            return [n, "self" if rng.random() < 0.15 else self.pairs(rng)]
        if n == "eq":
            return [n, [[kk, vv] for kk, vv in self.pairs(rng) if self.name != "lodict" or kk == kk.lower()]]
        if n == "fromkeys":
            return [n, [rng.choice(KEYS) for _ in range(rng.randint(0, 3))], v]
        raise ValueError(n)

    def core_alphabet(self):
        if self.name == "odict":
            a, b = "a", "b"
        else:
            a, b = "a", "A"
        return [["set", a, 1], ["set", b, 2], ["set", "c", 3], ["del", a], ["pop", b], ["popd", a], ["popd", b, "@same"], ["popitem"],
                ["setdefault", b, 4], ["insert", 0, b, 5], ["insert", 1, "c", 6], ["append", a, 7],
                ["create", "kw", [[a, 8], ["c", 9]]], ["update", "pairs", [["c", 10], [b, 11]]],
                ["reorder", [[a, 12]]], ["reorder", "self"], ["sift", [b]], ["get", b], ["copy"]]

    def full_alphabet(self):
        ks = ["a", "b"] if self.name == "odict" else ["a", "A", "Ab"]
        al = []
        v = [100]

        def nv():
            v[0] += 1
            return v[0]
        for k in ks:
            al += [["set", k, nv()], ["del", k], ["get", k], ["getd", k], ["in", k], ["pop", k], ["popd", k], ["popd", k, "@same"],
                   ["setdefault", k, nv()], ["append", k, nv()], ["insert", 0, k, nv()], ["insert", 5, k, nv()],
                   ["insert", -1, k, nv()], ["sift", [k]], ["reorder", [[k, nv()]]], ["fromkeys", [k, "c"], nv()]]
        two = [[ks[0], nv()], [ks[-1], nv()], ["c", nv()]]
        for form in ("pairs", "dict", "odict", "same", "kw", "mixed", "gen"):
            al += [["update", form, two], ["create", form, two], ["ctor", form, two]]
        al += [["popitem"], ["clear"], ["copy"], ["deepcopy"], ["copycopy"], ["pickle", 2], ["pickle", 4],
               ["pickle", 5], ["pickle", 0], ["pickle", 1], ["sift", None], ["sift", []], ["reorder", two], ["reorder", "self"], ["ior", two],
               ["eq", [[ks[0], 101]]], ["eq", []]]
        return al


# --------------------------------------------------------------------------
# modict

def mo_state(d):
    return {"t": type(d).__name__, "keys": d.keys(), "iter": list(d), "len": len(d),
            "items": d.items(), "listitems": d.listitems(), "allitems": d.allitems(),
            "values": d.values(), "listvalues": d.listvalues(), "allvalues": d.allvalues(),
            "iteritems": list(d.iteritems()), "iterlistitems": list(d.iterlistitems()),
            "iterallitems": list(d.iterallitems()), "itervalues": list(d.itervalues()),
            "iterlistvalues": list(d.iterlistvalues()), "iterallvalues": list(d.iterallvalues()),
            "rawitems": sorted([k, dict.__getitem__(d, k)] for k in dict.keys(d))}


def mo_model_state(m):
    keys = list(m)
    items = [[k, m[k][-1]] for k in keys]
    listitems = [[k, list(m[k])] for k in keys]
    allitems = [[k, v] for k in keys for v in m[k]]
    return {"t": "modict", "keys": keys, "iter": keys, "len": len(keys), "items": items, "listitems": listitems,
            "allitems": allitems, "values": [i[1] for i in items], "listvalues": [i[1] for i in listitems],
            "allvalues": [i[1] for i in allitems], "iteritems": items, "iterlistitems": listitems,
            "iterallitems": allitems, "itervalues": [i[1] for i in items],
            "iterlistvalues": [i[1] for i in listitems], "iterallvalues": [i[1] for i in allitems],
            "rawitems": sorted(listitems)}


class MoRun(object):
    def __init__(self, spec):
        self.spec = spec
        self.cls = spec.cls
        self.d = self.cls()
        self.m = {}
        self.shadow = None

    def _apply_src(self, m, form, pairs, srclists):
        """update / constructor: a modict source contributes all its values"""
        if form == "same":
            src = {}
            for k, v in pairs:
                src.setdefault(k, []).append(v)
            for k, vl in src.items():
                for v in vl:
                    m.setdefault(k, []).append(v)
        elif form in ("dict", "odict", "kw"):
            src = {}
            for k, v in pairs:
                src[k] = v
            for k, v in src.items():
                m.setdefault(k, []).append(v)
        elif form == "mixed":
            h = len(pairs) // 2
            for k, v in pairs[:h]:
                m.setdefault(k, []).append(v)
            src = {}
            for k, v in pairs[h:]:
                src[k] = v
            for k, v in src.items():
                m.setdefault(k, []).append(v)
        else:
            for k, v in pairs:
                m.setdefault(k, []).append(v)

    def model(self, op):
        m = self.m
        n = op[0]
        if n in ("set", "append", "add"):
            m.setdefault(op[1], []).append(op[2])
            return OK
        if n == "replace":
            m[op[1]] = [op[2]]
            return OK
        if n == "del":
            if op[1] not in m:
                return RAISES("KeyError")
            del m[op[1]]
            return OK
        if n == "get":
            if op[1] not in m:
                return RAISES("KeyError")
            return RET(m[op[1]][-1])
        if n in ("getd", "getone"):
            return RET(m[op[1]][-1] if op[1] in m else "D")
        if n == "getn":
            return RET(m[op[1]][-1] if op[1] in m else None)
        if n == "geti":
            vl = m.get(op[1])
            if vl is None or not (-len(vl) <= op[2] < len(vl)):
                return RET("D")
            return RET(vl[op[2]])
        if n == "getkind":
            return RET(str(m[op[1]][-1]) if op[1] in m else "D")
        if n == "getlist":
            return RET(list(m.get(op[1], [])))
        if n in ("in", "has_key"):
            return RET(op[1] in m)
        if n == "setdefault":
            if op[1] in m:
                return RET(m[op[1]][-1])
            m[op[1]] = [op[2]]
            return RET(op[2])
        if n == "pop":
            if op[1] not in m:
                return RAISES("KeyError")
            return RET(m.pop(op[1])[-1])
        if n == "popd":
            return RET(m.pop(op[1])[-1] if op[1] in m else "D")
        if n == "popfirst":           # pop(key, index=0)
            if op[1] not in m:
                return RAISES("KeyError")
            return RET(m.pop(op[1])[0])
        if n in ("poplist", "popall"):
            if op[1] not in m:
                return RAISES("KeyError")
            return RET(m.pop(op[1]))
        if n == "poplistd":
            return RET(m.pop(op[1]) if op[1] in m else "D")
        if n in ("popitem", "poplistitem"):
            if not m:
                return RAISES("KeyError")
            k = list(m)[-1 if op[1] else 0]
            vl = m.pop(k)
            return RET([k, vl[-1]] if n == "popitem" else [k, vl])
        if n == "popitem0":           # popitem() without arguments
            if not m:
                return RAISES("KeyError")
            k = list(m)[-1]
            return RET([k, m.pop(k)[-1]])
        if n in ("update", "ctor"):
            if n == "ctor":
                m.clear()
            self._apply_src(m, op[1], op[2], None)
            return OK
        if n == "clear":
            m.clear()
            return OK
        if n in ("copy", "pickle", "deepcopy"):
            return RET(mo_model_state(m))
        if n == "fromkeys":
            r = {}
            for k in op[1]:
                r.setdefault(k, []).append(op[2])
            return RET(mo_model_state(r))
        if n == "eq":
            other = {}
            for k, v in op[1]:
                other.setdefault(k, []).append(v)
            return RET(m == other)
        raise ValueError(op)

    def real(self, op):
        d, cls = self.d, self.cls
        n = op[0]
        if n == "set":
            d[op[1]] = op[2]
            return None
        if n == "append":
            return d.append(op[1], op[2])
        if n == "add":
            return d.add(op[1], op[2])
        if n == "replace":
            return d.replace(op[1], op[2])
        if n == "del":
            del d[op[1]]
            return None
        if n == "get":
            return d[op[1]]
        if n == "getd":
            return d.get(op[1], "D")
        if n == "getone":
            return d.getone(op[1], "D")
        if n == "getn":
            return d.get(op[1])
        if n == "geti":
            return d.get(op[1], "D", index=op[2])
        if n == "getkind":
            return d.get(op[1], "D", kind=str)
        if n == "getlist":
            return d.getlist(op[1])
        if n == "in":
            return op[1] in d
        if n == "has_key":
            return d.has_key(op[1])
        if n == "setdefault":
            return d.setdefault(op[1], op[2])
        if n == "pop":
            return d.pop(op[1])
        if n == "popd":
            return d.pop(op[1], "D")
        if n == "popfirst":
            return d.pop(op[1], index=0)
        if n == "poplist":
            return d.poplist(op[1])
        if n == "popall":
            return d.popall(op[1])
        if n == "poplistd":
            return d.poplist(op[1], "D")
        if n == "popitem":
            return d.popitem(last=op[1])
        if n == "popitem0":
            return d.popitem()
        if n == "poplistitem":
            return d.poplistitem(last=op[1])
        if n == "update":
            pa, kwa = build_arg(cls, self.spec.odict, op[1], op[2])
            return d.update(*pa, **kwa)
        if n == "ctor":
            pa, kwa = build_arg(cls, self.spec.odict, op[1], op[2])
            self.d = cls(*pa, **kwa)
            return None
        if n == "clear":
            return d.clear()
        if n in ("copy", "pickle", "deepcopy"):
            if n == "copy":
                c = d.copy()
            elif n == "pickle":
                c = pickle.loads(pickle.dumps(d, op[1]))
            else:
                c = copy.deepcopy(d)
            if c is d:
                raise AssertionError("copy is the same object")
            self.shadow = (d, hist.norm(mo_state(d)))
            self.d = c
            return mo_state(c)
        if n == "fromkeys":
            return mo_state(d.fromkeys(op[1], op[2]))
        if n == "eq":
            return d == cls([tuple(p) for p in op[1]])
        raise ValueError(op)

    def real_state(self):
        s = mo_state(self.d)
        s["shadow_intact"] = self.shadow is None or hist.norm(mo_state(self.shadow[0])) == self.shadow[1]
        return s

    def model_state(self):
        s = mo_model_state(self.m)
        s["shadow_intact"] = True
        return s

    def resync(self):
        self.m = dict((k, list(v)) for k, v in self.d.listitems())


class MoSpec(object):
    name = "modict"
    tag = "mo"

    def __init__(self):
        cl = _classes()
        self.cls = cl["modict"]
        self.odict = cl["odict"]

    def new(self):
        return MoRun(self)

    def key(self, div):
        n, kind = div["op"][0], div["kind"]
        obs = str(div.get("observed"))
        if n in ("getd", "getone", "getn", "geti", "getkind") and kind == "return":
            return "modict/get/indexes-into-newest-value"
        if n in ("popitem", "popitem0", "poplistitem") and kind in ("raised", "exc-type") and \
                "unexpected keyword argument 'last'" in obs:
            return "modict/popitem/last-keyword-typeerror"
        if n in ("update", "ctor") and div["op"][1] in ("dict", "mixed") and kind == "raised" and "iteritems" in obs:
            return "modict/update/plain-dict-iteritems"
        if n in ("pickle", "deepcopy") and kind == "return":
            return "modict/pickle/values-not-preserved"
        return None

    def quarantined(self, op):
        n = op[0]
        return (n in ("getd", "getone", "getn", "geti", "getkind", "popitem", "popitem0", "poplistitem", "pickle",
                      "deepcopy") or (n in ("update", "ctor") and op[1] in ("dict", "mixed")))

    def pairs(self, rng, nmax=4):
        ks = KEYS[:3]
        return [[rng.choice(ks), rng.randrange(100)] for _ in range(rng.randint(0, nmax))]

    def random_op(self, rng):
        k = rng.choice(KEYS[:3])
        v = rng.randrange(100)
        n = rng.choice(["set", "set", "set", "append", "add", "replace", "del", "get", "getd", "getone", "getn",
                        "geti", "getkind", "getlist", "in", "has_key", "setdefault", "pop", "popd", "popfirst",
                        "poplist", "popall", "poplistd", "popitem", "popitem0", "poplistitem", "update", "update",
                        "ctor", "clear", "copy", "pickle", "deepcopy", "fromkeys", "eq"])
        if n in ("set", "append", "add", "replace", "setdefault"):
            return [n, k, v]
        if n in ("del", "get", "getd", "getone", "getn", "getkind", "getlist", "in", "has_key", "pop", "popd",
                 "popfirst", "poplist", "popall", "poplistd"):
            return [n, k]
        if n == "geti":
            return [n, k, rng.randint(-3, 2)]
        if n in ("popitem", "poplistitem"):
            return [n, rng.random() < 0.5]
        if n in ("popitem0", "clear", "copy", "deepcopy"):
            return [n]
        if n in ("update", "ctor"):
            return [n, rng.choice(["pairs", "dict", "odict", "same", "kw", "mixed", "gen"]), self.pairs(rng)]
        if n == "pickle":
            return [n, rng.choice([2, 4, 5, 0, 1])]
        if n == "fromkeys":
            return [n, [rng.choice(KEYS[:3]) for _ in range(rng.randint(0, 3))], v]
        if n == "eq":
            return [n, self.pairs(rng)]
        raise ValueError(n)

    def core_alphabet(self):
        return [["set", "a", 1], ["set", "a", 2], ["set", "b", 3], ["replace", "a", 4], ["del", "a"], ["get", "a"],
                ["getd", "a"], ["getlist", "a"], ["setdefault", "b", 5], ["pop", "a"], ["popfirst", "a"],
                ["poplist", "b"], ["popitem", True], ["popitem", False], ["update", "same", [["a", 6], ["a", 7]]],
                ["update", "pairs", [["b", 8], ["a", 9]]], ["copy"]]

    def full_alphabet(self):
        al = []
        v = [100]

        def nv():
            v[0] += 1
            return v[0]
        for k in ("a", "b"):
            al += [["set", k, nv()], ["append", k, nv()], ["add", k, nv()], ["replace", k, nv()], ["del", k],
                   ["get", k], ["getd", k], ["getone", k], ["getn", k], ["geti", k, 0], ["geti", k, -2],
                   ["getkind", k], ["getlist", k], ["in", k], ["has_key", k], ["setdefault", k, nv()], ["pop", k],
                   ["popd", k], ["popfirst", k], ["poplist", k], ["popall", k], ["poplistd", k]]
        three = [["a", nv()], ["b", nv()], ["a", nv()]]
        for form in ("pairs", "dict", "odict", "same", "kw", "mixed", "gen"):
            al += [["update", form, three], ["ctor", form, three]]
        al += [["popitem", True], ["popitem", False], ["popitem0"], ["poplistitem", True], ["poplistitem", False],
               ["clear"], ["copy"], ["deepcopy"], ["pickle", 2], ["pickle", 4], ["pickle", 0], ["pickle", 1], ["fromkeys", ["a", "b", "a"], nv()],
               ["eq", three], ["eq", []]]
        return al


# --------------------------------------------------------------------------
# oset

def os_state(s):
    from itertools import islice
    fwd = list(islice(iter(s), 200))
    # walk the linked list both ways through the internals as well
    end = s.end
    chain = []
    cur = end[2]
    guard = 0
    while cur is not end and guard < 1000:
        chain.append(cur[0])
        cur = cur[2]
        guard += 1
    return {"list": fwd, "len": len(s), "reversed": list(islice(reversed(s), 200)), "mapkeys": sorted(map(repr, s.map)),
            "chain": chain, "bool": bool(s), "repr": repr(s)}


def os_model_state(m):
    return {"list": list(m), "len": len(m), "reversed": list(reversed(m)), "mapkeys": sorted(map(repr, m)),
            "chain": list(m), "bool": bool(m), "repr": ("oset(%r)" % (list(m),)) if m else "oset()"}


def uniq(xs):
    out = []
    for x in xs:
        if x not in out:
            out.append(x)
    return out


class OsRun(object):
    def __init__(self, spec):
        self.spec = spec
        self.cls = spec.cls
        self.s = self.cls()
        self.m = []

    def other(self, form, xs):
        if form == "oset":
            return self.cls(xs)
        if form == "set":
            return set(xs)
        if form == "list":
            return list(xs)
        if form == "self":
            return self.s
        raise ValueError(form)

    def model(self, op):
        m = self.m
        n = op[0]
        if n == "add":
            if op[1] not in m:
                m.append(op[1])
            return OK
        if n == "discard":
            if op[1] in m:
                m.remove(op[1])
            return OK
        if n == "remove":
            if op[1] not in m:
                return RAISES("KeyError")
            m.remove(op[1])
            return OK
        if n == "pop":
            if not m:
                return RAISES("KeyError")
            return RET(m.pop(-1 if op[1] else 0))
        if n == "pop0":
            if not m:
                return RAISES("KeyError")
            return RET(m.pop())
        if n == "clear":
            del m[:]
            return OK
        if n == "in":
            return RET(op[1] in m)
        if n == "ctor":
            m[:] = uniq(op[1] or [])
            return OK
        xs = uniq(op[2]) if len(op) > 2 and op[1] != "self" else list(m)
        if n == "ior":
            for x in xs:
                if x not in m:
                    m.append(x)
            return OK
        if n == "iand":
            m[:] = [x for x in m if x in xs]
            return OK
        if n == "isub":
            m[:] = [x for x in m if x not in xs]
            return OK
        if n == "ixor":
            if op[1] == "self":
                del m[:]
                return OK
            for x in xs:
                if x in m:
                    m.remove(x)
                else:
                    m.append(x)
            return OK
        if n in ("or", "and", "sub", "xor"):
            a, b = set(map(repr, m)), set(map(repr, xs))
            r = {"or": a | b, "and": a & b, "sub": a - b, "xor": a ^ b}[n]
            return RET({"type": "oset", "members": sorted(r), "nodup": True})
        if n == "cmp":
            a, b = set(map(repr, m)), set(map(repr, xs))
            return RET([a <= b, a < b, a >= b, a > b, a.isdisjoint(b)])
        if n == "eq":
            # same members in another order between two osets: not judged
            if op[1] in ("oset", "self"):
                if list(m) == xs:
                    return RET(True)
                if set(map(repr, m)) != set(map(repr, xs)):
                    return RET(False)
                return OK
            return RET(set(map(repr, m)) == set(map(repr, xs)))
        raise ValueError(op)

    def real(self, op):
        s = self.s
        n = op[0]
        if n == "add":
            return s.add(op[1])
        if n == "discard":
            return s.discard(op[1])
        if n == "remove":
            return s.remove(op[1])
        if n == "pop":
            return s.pop(last=op[1])
        if n == "pop0":
            return s.pop()
        if n == "clear":
            return s.clear()
        if n == "in":
            return op[1] in s
        if n == "ctor":
            self.s = self.cls(op[1]) if op[1] is not None else self.cls()
            return None
        o = self.other(op[1], op[2] if len(op) > 2 else None)
        if n in ("ior", "iand", "isub", "ixor"):
            if n == "ior":
                s |= o
            elif n == "iand":
                s &= o
            elif n == "isub":
                s -= o
            else:
                s ^= o
            if s is not self.s:
                raise AssertionError("in-place operator returned another object")
            return None
        if n in ("or", "and", "sub", "xor"):
            r = {"or": lambda: s | o, "and": lambda: s & o, "sub": lambda: s - o, "xor": lambda: s ^ o}[n]()
            lst = list(r)
            return {"type": type(r).__name__, "members": sorted(map(repr, lst)),
                    "nodup": len(lst) == len(set(map(repr, lst))) == len(r)}
        if n == "cmp":
            return [s <= o, s < o, s >= o, s > o, s.isdisjoint(o)]
        if n == "eq":
            r = (s == o)
            if (s != o) == r:
                raise AssertionError("== and != agree")
            return r
        raise ValueError(op)

    def real_state(self):
        return os_state(self.s)

    def model_state(self):
        return os_model_state(self.m)

    def resync(self):
        self.m = list(self.s)


class OsSpec(object):
    name = "oset"
    tag = "os"

    def __init__(self):
        self.cls = _classes()["oset"]

    def new(self):
        return OsRun(self)

    def elems(self, rng, nmax=4):
        return [rng.choice(SETELEMS) for _ in range(rng.randint(0, nmax))]

    def random_op(self, rng):
        x = rng.choice(SETELEMS)
        n = rng.choice(["add", "add", "add", "discard", "remove", "pop", "pop0", "clear", "in", "ctor", "ior", "iand",
                        "isub", "ixor", "or", "and", "sub", "xor", "cmp", "eq"])
        if n in ("add", "discard", "remove", "in"):
            return [n, x]
        if n == "pop":
            return [n, rng.random() < 0.5]
        if n in ("pop0", "clear"):
            return [n] if n == "pop0" or rng.random() < 0.3 else ["add", x]
        if n == "ctor":
            return [n, self.elems(rng)]
        if n in ("ior", "iand", "isub", "ixor", "eq"):
            f = rng.choice(["oset", "list", "set", "self"] if n != "eq" else ["oset", "set", "list", "self"])
            if n in ("iand", "isub", "ixor", "ior") and f == "set":
                f = "oset"          # iteration order of a set argument is not ours to judge
            return [n, f] if f == "self" else [n, f, self.elems(rng)]
        if n in ("or", "and", "sub", "xor", "cmp"):
            return [n, "oset", self.elems(rng)]
        raise ValueError(n)

    def core_alphabet(self):
        return [["add", 1], ["add", 2], ["add", "a"], ["discard", 1], ["remove", 2], ["pop", True], ["pop", False],
                ["ior", "list", [2, 3, 1]], ["iand", "oset", [1, "a"]], ["isub", "oset", [2, "a"]],
                ["ixor", "list", [1, 3]], ["clear"], ["eq", "oset", [1, 2]], ["cmp", "oset", [1, 2]],
                ["or", "oset", [3, 1]]]

    def full_alphabet(self):
        al = []
        for x in (1, 2, "a"):
            al += [["add", x], ["discard", x], ["remove", x], ["in", x]]
        al += [["pop", True], ["pop", False], ["pop0"], ["clear"], ["ctor", [2, 1, 2, "a"]], ["ctor", []], ["ctor", None]]
        for xs in ([1, 2], ["a", 3, 1], []):
            for f in ("oset", "list"):
                al += [["ior", f, xs], ["iand", f, xs], ["isub", f, xs], ["ixor", f, xs]]
            al += [["or", "oset", xs], ["and", "oset", xs], ["sub", "oset", xs], ["xor", "oset", xs],
                   ["cmp", "oset", xs], ["eq", "oset", xs], ["eq", "set", xs], ["eq", "list", xs]]
        al += [["ior", "self"], ["iand", "self"], ["isub", "self"], ["ixor", "self"], ["eq", "self"]]
        return al


# --------------------------------------------------------------------------

def make_spec(name):
    if name in ("odict", "lodict"):
        return OdSpec(name)
    if name == "modict":
        return MoSpec()
    return OsSpec()


SPECS = ["odict", "lodict", "modict", "oset"]


def worker(ctx, job):
    spec = make_spec(job["spec"])
    rep = hist.Reporter(ctx)
    if job["mode"] == "exh":
        al = spec.core_alphabet() if job["alphabet"] == "core" else spec.full_alphabet()
        n = hist.exhaustive(ctx, rep, spec, al, job["maxlen"], firsts=job["firsts"])
        ctx.hit("exhaustive_sequences", n)
        if job["index"] < 8 and job["firsts"]:
            ctx.sample({"spec": spec.name, "exhaustive_alphabet": job["alphabet"], "size": len(al),
                        "maxlen": job["maxlen"], "first_ops": [al[i] for i in job["firsts"][:3]]})
    else:
        rng = ctx.subrng("c39", job["spec"], job["chunk"])
        hist.random_runs(ctx, rep, spec, job["nseq"], job["maxlen"], rng)
        ctx.hit("random_sequences", job["nseq"])
    rep.flush()


def run(ctx):
    jobs = []
    core_len = ctx.pick(3, 4)
    full_len = 2
    for name in SPECS:
        spec = make_spec(name)
        nc, nf = len(spec.core_alphabet()), len(spec.full_alphabet())
        for firsts in hist.split(nc, ctx.pick(2, 6)):
            jobs.append({"spec": name, "mode": "exh", "alphabet": "core", "maxlen": core_len, "firsts": firsts})
        for firsts in hist.split(nf, ctx.pick(1, 2)):
            jobs.append({"spec": name, "mode": "exh", "alphabet": "full", "maxlen": full_len, "firsts": firsts})
        for chunk in range(ctx.pick(3, 8)):
            jobs.append({"spec": name, "mode": "rnd", "chunk": chunk, "nseq": ctx.pick(600, 10000), "maxlen": 40})
        ctx.extra.setdefault("alphabet_sizes", {})[name] = {"core": nc, "full": nf}
    ctx.exhaustive = False
    ctx.extra["exhaustive_part"] = "all sequences of length <= %d over the core alphabets and <= %d over the full " \
                                   "alphabets (sequences are not extended past a divergence)" % (core_len, full_len)
    ctx.shard(jobs, timeout=ctx.pick(120, 1500))
    ctx.floor("exhaustive_sequences", ctx.pick(6000, 120000))
    ctx.floor("random_sequences", ctx.pick(3600, 40000))
    ctx.floor("steps_rejected", ctx.pick(8000, 80000))
    ctx.floor("steps_state_changed", ctx.pick(25000, 300000))
    ctx.floor("distinct_nontrivial", ctx.pick(10000, 120000))
