"""C15 optional clauses of a command may appear in any order (engine A, build only)."""
import itertools
import json

from vf import core

LEVEL = "exploration"
RULE = ("for each verb with a documented set of optional clauses (framer, frame, do, logger, log, server, aux, rear, need "
        "`in frame`/`by`) commands with 2-5 clauses with distinct keys and generated values; ALL permutations of each command's "
        "clauses are built (exhaustive per command, <= 120) and the structural dump of the built house (or the error class) of "
        "every permutation is compared with the first; distinct = distinct (verb, clause set with values); non-trivial = at "
        "least 2 permutations built successfully")
RULE = __import__("vf.core", fromlist=["rule_add"]).rule_add(RULE, '`do` with relation forms of `via`; needs with a further condition joined by `and` behind the clauses; `per` data that carry an inode beside `via`')
META = {"engine": "A floscript (build only)", "technique": "metamorphic runtime check: structural dump equality across clause permutations",
        "level_text": "Every permutation of the optional clauses of each generated command is really built by ioflo's Builder; the dumps "
                      "(framers, frames, acts per context with actor kind, name, inits, ioinits, parms, context; loggers, logs, servers) "
                      "must be identical, or every permutation must fail with a parse error.",
        "level_note": "The dump function (vf/flo/dump.py) decides what 'same structure' means; it covers everything the builder sets from clauses."}

HEAD = "house h\n  init .src with a 1 b 2\n  init .c0 with 0\n"


def clause_pool(verb, rng):
    S = core.SCRATCH
    if verb == "framer":
        return {"be": "be " + rng.choice(["active", "inactive", "aux", "slave"]), "at": "at " + rng.choice(["0.25", "1", "0.5"]),
                "in": "in " + rng.choice(["front", "mid", "back"]), "first": "first " + rng.choice(["a", "b"]),
                "via": "via " + rng.choice([".x.y.", "boo.", ".z.", "boo of framer", "boo of framer fx", "boo of me"])}
    if verb == "frame":
        return {"in": "in a", "via": "via " + rng.choice([".x.y.", "boo."])}
    if verb == "do":
        return {"as": "as " + rng.choice(["foo", "big deal", "alpha beta gamma"]),
                "at": "at " + rng.choice(["enter", "exit", "recur", "precur", "renter", "rexit"]),
                "via": "via " + rng.choice([".x.y.", "boo.", "box of actor", "box of frame", "box of framer", "box of me", "box of actor"]),
                # quoted values that look like numbers, booleans or paths must stay strings wherever the clause stands;
                # a lone value goes to the default field
                "with": "with " + rng.choice(['tag "t1"', 'tag "t2"', '"2.50"', 'tag "10"', '"true"', 'tag ".a.b"', "tag 'x y' n 3",
                                              '"0x1f"', "tag 7"]),
                # a `per` clause may carry an inode of its own: the `via` inode takes precedence wherever it stands
                "per": "per " + rng.choice(['inp ".io.p"', 'inp ".io.q"', 'inode "box.one." inp ".io.p"', 'inp ".io.q" inode "box.two."']),
                "from": "from a in .src",
                "for": "for b in .iosrc",
                "cum": "cum " + rng.choice(["extra 5", 'extra "v"', '"10"', 'extra "1e3"', "'no'", "extra none"]),
                "qua": "qua b in .src"}
    if verb == "logger":
        return {"to": "to %s/lg" % S, "at": "at " + rng.choice(["0.5", "1"]), "be": "be " + rng.choice(["active", "inactive", "slave"]),
                "in": "in " + rng.choice(["front", "back"]), "flush": "flush " + rng.choice(["2", "5"]), "keep": "keep " + rng.choice(["1", "3"]),
                "cycle": "cycle " + rng.choice(["10", "20"]), "size": "size " + rng.choice(["100", "2000"]), "reuse": "reuse"}
    if verb == "log":
        return {"to": "to " + rng.choice(["fn1", "fn2"]), "as": "as " + rng.choice(["text", "binary"]),
                "on": "on " + rng.choice(["once", "always", "update", "change", "never"])}
    if verb == "server":
        return {"at": "at " + rng.choice(["0.5", "1"]), "be": "be " + rng.choice(["active", "inactive", "slave"]),
                "rx": "rx " + rng.choice(["127.0.0.1:55001", ":55002", "localhost"]), "tx": "tx " + rng.choice(["127.0.0.1:55003", "localhost"]),
                "in": "in " + rng.choice(["front", "back"]), "to": "to %s/sv" % S,
                "per": "per " + rng.choice(['stuff "5"', '"7"', "stuff 5 more 'a b'", '"false"']),
                "for": "for " + rng.choice([".src", "a in .src", "a b in .src"])}
    if verb == "aux":
        return {"as": "as " + rng.choice(["mine", "klone"]), "via": "via " + rng.choice([".x.y.", "boo.", "main", "mine"])}
    if verb == "rear":
        return {"as": "as mine", "be": "be aux", "in": "in frame b"}
    if verb == "need":
        # the frame name after `in frame` is optional; `kind` picks the participle the script uses
        # `tail`: a further condition joined with `and` after the clauses (it stays last in every permutation)
        return {"in": "in frame" + rng.choice(["", "", " a", " b", " me"]), "by": "by " + rng.choice(["k1", "k2", '"k 3"']),
                "kind": rng.choice(["updated", "changed"]),
                "tail": rng.choice(["and elapsed >= 1.0", "and .src == 1", "and not .c0", "and elapsed >= 1.0"])}
    raise ValueError(verb)


def script(verb, clauses):
    c = " ".join(clauses)
    if verb == "framer":
        return HEAD + "  framer fx %s\n    frame a\n      do vf rec with tag \"x\"\n    frame b\n" % c
    if verb == "frame":
        return HEAD + "  framer fx be active\n    frame a\n    frame c %s\n      do vf rec with tag \"x\"\n" % c
    if verb == "do":
        return HEAD + "  init .iosrc with b \".io.r\"\n  framer fx be active\n    frame a\n      do vf rec %s\n" % c
    if verb == "logger":
        return HEAD + "  logger lg %s\n    log l1 on update\n      loggee .c0\n  framer fx be active\n    frame a\n" % c
    if verb == "log":
        return HEAD + "  logger lg to %s/lg\n    log l1 %s\n      loggee .c0\n  framer fx be active\n    frame a\n" % (core.SCRATCH, c)
    if verb == "server":
        return HEAD + "  init .src with a 1 b 2\n  server sv %s\n  framer fx be active\n    frame a\n" % c
    if verb == "aux":
        return (HEAD + "  framer fx be active\n    frame a\n      aux mo %s\n  framer mo be moot via .m.\n    frame x\n      do vf rec with tag \"m\"\n" % c)
    if verb == "rear":
        return (HEAD + "  framer fx be active\n    frame a\n      rear mo %s\n      go b\n    frame b\n  framer mo be moot\n    frame x\n" % c)
    if verb == "need":
        kind = [x for x in clauses if x in ("updated", "changed")]
        tail = [x for x in clauses if x.startswith("and ")]
        c = " ".join(x for x in clauses if x not in ("updated", "changed") and not x.startswith("and "))
        return HEAD + "  framer fx be active\n    frame a\n      go b if .c0 is %s %s%s\n    frame b\n      go a\n" % (
            kind[0] if kind else "updated", c, (" " + tail[0]) if tail else "")
    raise ValueError(verb)


VERBS = ["framer", "frame", "do", "logger", "log", "server", "aux", "rear", "need"]


def worker(ctx, job):
    from vf.flo import dump
    for verb, seed in job["items"]:
        rng = ctx.subrng(verb, seed)
        pool = clause_pool(verb, rng)
        keys = sorted(pool)
        k = rng.randint(2, min(5, len(keys)))
        chosen = rng.sample(keys, k)
        first = None
        built = 0
        perms = list(itertools.permutations(chosen))
        results = []
        for perm in perms:
            text = script(verb, [pool[x] for x in perm])
            outcome, detail, houses = dump.build_text(text)
            ctx.event()
            if outcome == "built":
                built += 1
                d = json.dumps(dump.dump_house(houses[0]), sort_keys=True, default=repr)
            elif outcome == "exception":
                d = "exception:" + core.exc_key(detail)
            else:
                d = outcome
            results.append((perm, outcome, d, text))
        ctx.hit("verb_" + verb)
        ctx.hit("permutations_built", len(perms))
        base = results[0]
        ctx.case([verb, [pool[x] for x in sorted(chosen)]], nontrivial=built >= 2,
                 sample={"verb": verb, "clauses": [pool[x] for x in chosen], "permutations": len(perms), "outcome": base[1]})
        for perm, outcome, d, text in results[1:]:
            if d != base[2]:
                a, b = base, (perm, outcome, d, text)
                diff = first_diff(a[2], b[2])
                swallowed = sorted(set(x for x in chosen if a[0].index(x) != perm.index(x)))
                # which clause directly follows which in the differing permutations is the mechanism
                ctx.fail("clause-order-changes-build/%s/%s" % (verb, culprit(verb, results, chosen)),
                         "verb %s: clause order %s builds differently from %s (%s vs %s)" % (verb, list(perm), list(a[0]), outcome, a[1]),
                         {"verb": verb, "script_a": a[3], "script_b": text, "outcome_a": a[1], "outcome_b": outcome, "first_difference": diff})
                break
        else:
            ctx.check(True, "ok")


def culprit(verb, results, chosen):
    """name the clause whose *successor* decides the outcome: group permutations by dump and look for a
    clause c such that the dump depends only on what follows c"""
    groups = {}
    for perm, outcome, d, text in results:
        groups.setdefault(d, []).append(perm)
    for c in sorted(chosen):
        def follower(p):
            i = p.index(c)
            return p[i + 1] if i + 1 < len(p) else None
        ok = True
        seen = {}
        for d, perms in groups.items():
            for p in perms:
                f = follower(p)
                if seen.setdefault(f, d) != d:
                    ok = False
        if ok and len(set(seen.values())) > 1:
            return "after-%s" % c
    return "order"


def first_diff(a, b):
    n = min(len(a), len(b))
    for i in range(n):
        if a[i] != b[i]:
            return {"a": a[max(0, i - 80):i + 80], "b": b[max(0, i - 80):i + 80]}
    return {"a_len": len(a), "b_len": len(b)}


def run(ctx):
    items = []
    per = ctx.pick(48, 300)
    for v in VERBS:
        for i in range(per):
            items.append((v, ctx.rng.randrange(1 << 30)))
    for i in range(per):          # `do` has by far the largest clause set
        items.append(("do", ctx.rng.randrange(1 << 30)))
    n = 16
    ctx.shard([{"items": items[i::n]} for i in range(n)], timeout=ctx.pick(300, 1200))
    for v in VERBS:
        ctx.floor("verb_" + v, 5)
    ctx.floor("permutations_built", 500)
