"""C38 exchanges time out and retransmit on schedule (engine B, history + model).

The real ``Exchange`` / ``Exchanger`` / ``Exchangent`` run against a stack
double (records every ``transmit`` with the stamp at which it happened) that
owns a real ``ioflo.aid.timing.Stamper``.  Stamps, time outs and advances are
multiples of 1/16, so "elapsed >= timeout" is decided exactly.

Model (from the statement):

  created with timeout T (class default when omitted) and redo R (ditto);
  timers run from construction, or from ``start`` for an Exchanger;
  process() at stamp t, while not finished:
      T > 0 and t - timer_start >= T          -> failed and done, nothing sent
      else R > 0 and t - redo_start >= R      -> redo_start := t, latest message sent once
  T == 0 never fails; R == 0 never retransmits.

After every ``process`` the list of (stamp, message) transmitted so far and
the done / failed flags are compared with the model.  The harness stops
calling ``process`` once the exchange is finished (a stack drops it then).
"""
import inspect
from fractions import Fraction

from vf.core import exc_key

LEVEL = "exploration"
RULE = ("configurations: class in {Exchange, Exchanger, Exchangent} x timeout in {omitted, 0, 1/4, 1/2, 1, 2, 7/2} x "
        "redo in {omitted, 0, 1/8, 1/4, 1/2, 1, 5} (all 147, every run), each constructed at stamp 0 and 21/2; "
        "schedules for Exchange/Exchanger: every sequence of 1..4 advances from {0, 1/4, 1/2, 1} with a process() "
        "after each (340 per configuration, exhaustive) plus seeded random schedules of 10..60 steps with advances "
        "from {0, 1/16 .. 4}, a delay before start, and new messages sent in between (the retransmitted message "
        "must be the latest); distinct = distinct (class, timeout, redo, start stamp, schedule); non-trivial = at "
        "least one process() call at which a redo or the time out is due in the model")
RULE = __import__("vf.core", fromlist=["rule_add"]).rule_add(RULE, 'also exchanges on a real (unserviced) stacking.Stack, and base exchanges started with nothing to transmit whose first message comes later by send()')
META = {"engine": "B history",
        "technique": "timer-arithmetic model compared after every process() on a virtual clock",
        "level_text": "exploration: the configuration grid is covered completely with all short schedules; longer "
                      "schedules are sampled",
        "level_note": "stack and device are doubles; negative time outs and process() after the exchange finished are "
                      "not generated; the redo keyword is taken from the constructor's signature (redoTimeout or redoTimout)"}

Q = Fraction(1, 16)
TIMEOUTS = (None, Fraction(0), Fraction(1, 4), Fraction(1, 2), Fraction(1), Fraction(2), Fraction(7, 2))
REDOS = (None, Fraction(0), Fraction(1, 8), Fraction(1, 4), Fraction(1, 2), Fraction(1), Fraction(5))
SHORT = (Fraction(0), Fraction(1, 4), Fraction(1, 2), Fraction(1))
CLASSES = ("Exchange", "Exchanger", "Exchangent")


class Device(object):
    name = "vfdevice"
    ha = ("127.0.0.1", 0)


class Stack(object):
    name = "vfstack"

    def __init__(self, stamper):
        self.stamper = stamper
        self.sent = []

    def transmit(self, pkt, *pa, **kwa):
        self.sent.append((Fraction(self.stamper.stamp), pkt))

    message = transmit


def real_stack(stamper):
    """A real (base) Stack that nobody services: whatever the exchange transmits stays queued on it.  The exchange's
    messages are labels; each label is one Packet object (a retransmission hands the stack the same object again)."""
    from ioflo.aio.proto import stacking, packeting
    st = stacking.Stack(stamper=stamper, name="vfstack")
    st.sent = []
    pkts = {}
    orig = st.transmit

    def transmit(label, *pa, **kwa):
        st.sent.append((Fraction(stamper.stamp), label))
        if label not in pkts:
            pkts[label] = packeting.Packet(stack=st, packed=str(label).encode("ascii"))
        return orig(pkts[label])
    st.transmit = transmit
    st.message = transmit
    st.vf_real = True
    return st


class Rig(object):
    def __init__(self, ctx):
        from ioflo.aio.proto import exchanging
        from ioflo.aid import timing
        self.ctx = ctx
        self.x = exchanging
        self.timing = timing
        params = inspect.signature(exchanging.Exchange.__init__).parameters
        self.redo_kw = "redoTimeout" if "redoTimeout" in params else ("redoTimout" if "redoTimout" in params else None)
        self.timeout_kw = "timeout" if "timeout" in params else None

    def build(self, cname, T, R, t0, tx=None, real=False):
        """returns (exchange, stack, stamper) or None after reporting"""
        ctx = self.ctx
        cls = getattr(self.x, cname)
        stamper = self.timing.Stamper(stamp=float(t0))
        stack = real_stack(stamper) if real else Stack(stamper)
        kw = {"device": Device(), "name": "vfx"}
        if tx is not None:
            kw["tx"] = tx
        if T is not None:
            kw[self.timeout_kw] = float(T)
        if R is not None:
            kw[self.redo_kw] = float(R)
        try:
            ex = cls(stack=stack, **kw)
        except Exception as e:
            ctx.fail("Exchange/constructor-raises-with-%s/%s" % (
                "redo-keyword" if R is not None else ("timeout-keyword" if T is not None else "defaults"), exc_key(e)),
                "%s(%s) raises %r" % (cname, ", ".join("%s=%s" % (k, v) for k, v in kw.items() if k in (self.timeout_kw, self.redo_kw)), e),
                {"class": cname, "timeout": str(T), "redo": str(R), "redo_keyword": self.redo_kw})
            return None
        ctx.hit("constructed")
        wantT = T if T is not None else Fraction(cls.Timeout)
        wantR = R if R is not None else Fraction(cls.RedoTimeout)
        ctx.check(ex.timeout == wantT and ex.timer.duration == wantT and ex.timer.start == t0,
                  "Exchange/timeout-setting-not-honoured", "timeout / its timer do not reflect the constructor argument (or class default)",
                  lambda: {"class": cname, "timeout": str(T), "redo": str(R), "got": [ex.timeout, ex.timer.duration, ex.timer.start]})
        ctx.check(ex.redoTimeout == wantR and ex.redoTimer.duration == wantR and ex.redoTimer.start == t0,
                  "Exchange/redo-setting-not-honoured", "redo timeout / its timer do not reflect the constructor argument (or class default)",
                  lambda: {"class": cname, "timeout": str(T), "redo": str(R),
                           "got": [ex.redoTimeout, ex.redoTimer.duration, ex.redoTimer.start]})
        ctx.check(ex.done is False and ex.failed is False, "Exchange/new-exchange-already-finished",
                  "a new exchange is already done or failed", lambda: {"class": cname})
        return ex, stack, stamper, wantT, wantR

    def schedule(self, cname, T, R, t0, delay, steps, tag, real=False, notx=False):
        """steps: list of (advance, new_message_or_None).  One case.  real: on a real, unserviced Stack"""
        ctx = self.ctx
        desc = {"class": cname, "timeout": str(T), "redo": str(R), "t0": str(t0), "delay": str(delay),
                "steps": [(str(a), m) for a, m in steps], "stack": "real Stack, not serviced" if real else "double"}
        # notx: a base Exchange that has nothing to transmit yet when it is started (its first message comes later with
        # send()): redo intervals pass -- and are counted -- without a transmission
        notx = notx and cname == "Exchange"
        if notx:
            desc["first_message"] = "sent later"
        built = self.build(cname, T, R, t0, tx=("m0" if cname == "Exchange" and not notx else None), real=real)
        if built is None:
            ctx.case(desc, nontrivial=False)
            return
        ex, stack, stamper, Tm, Rm = built
        t = Fraction(t0) + delay
        stamper.change(float(t))
        model_sent = []
        latest = None if notx else "m0"
        try:
            if cname == "Exchanger":
                ex.start("m0")
                model_sent.append((t, "m0"))
                tstart = rstart = t
            else:
                ex.start()
                tstart = rstart = Fraction(t0)
        except Exception as e:
            ctx.fail("%s/start-raises/%s" % (cname, exc_key(e)), "%s.start raises %r" % (cname, e), desc)
            ctx.case(desc, nontrivial=False)
            return
        due = 0
        failed = False
        for i, (adv, msg) in enumerate(steps):
            t += adv
            stamper.change(float(t))
            try:
                if msg is not None:
                    # both public ways to move on to a new message: send(), or transmit() of the new packet
                    if (i + len(msg)) % 3 == 0:
                        ex.transmit(msg)
                        ctx.hit("new_message_by_transmit")
                    else:
                        ex.send(msg)
                    latest = msg
                    model_sent.append((t, msg))
                    ctx.hit("new_message_sent")
                ex.process()
            except Exception as e:
                ctx.fail("%s/process-raises/%s" % (cname, exc_key(e)), "%s.process raises %r" % (cname, e),
                         dict(desc, failed_at_step=i))
                break
            ctx.event()
            if Tm > 0 and t - tstart >= Tm:
                failed = True
                due += 1
                ctx.hit("timeout_due")
                if t - tstart == Tm:
                    ctx.hit("timeout_due_exactly")
            elif Rm > 0 and t - rstart >= Rm:
                rstart = t
                if latest is not None:
                    model_sent.append((t, latest))
                else:
                    ctx.hit("redo_interval_elapsed_with_nothing_to_send")
                due += 1
                ctx.hit("redo_due")
                if Rm > 0 and Tm > 0 and t - tstart >= Tm:
                    pass
            else:
                ctx.hit("nothing_due")
            if Tm == 0:
                ctx.hit("process_with_timeout_zero")

            def wit():
                return dict(desc, failed_at_step=i, stamp=str(t), sent=[(str(s), m) for s, m in stack.sent],
                            model_sent=[(str(s), m) for s, m in model_sent], failed=ex.failed, done=ex.done,
                            model_failed=failed)
            if stack.sent != model_sent:
                n, k = len(stack.sent), len(model_sent)
                if n < k:
                    key = "retransmission-missing-when-redo-interval-elapsed"
                elif n > k:
                    key = ("retransmission-although-timeout-elapsed-first" if failed
                           else "retransmission-without-redo-interval-elapsed")
                else:
                    key = "retransmitted-message-is-not-the-latest"
                ctx.fail("%s/%s" % (cname if cname != "Exchanger" else "Exchange", key),
                         "messages queued on the stack differ from the model after process()", wit)
                break
            ctx.check(True, "sent-agrees")
            if real:
                # nobody services the stack: every transmission so far is still queued on it, retransmissions included
                ctx.hit("real_stack_steps")
                if not ctx.check(len(stack.txPkts) == len(stack.sent), "Exchange/transmission-not-queued-on-the-stack",
                                 "%d transmissions handed to the stack, %d packets queued on it" % (len(stack.sent), len(stack.txPkts)), wit):
                    break
            if bool(ex.failed) != failed or bool(ex.done) != failed:
                if Tm == 0 and ex.failed:
                    key = "timeout-zero-expired"
                elif ex.failed and not failed:
                    key = "failed-before-timeout-elapsed"
                elif failed and not ex.failed:
                    key = "not-failed-at-first-process-after-timeout-elapsed"
                else:
                    key = "done-flag-disagrees-with-failed"
                ctx.fail("Exchange/" + key, "done/failed flags differ from the model after process()", wit)
                break
            ctx.check(True, "flags-agree")
            if failed:
                break
        ctx.case(desc, nontrivial=due > 0)


def short_schedules():
    import itertools
    for n in range(1, 5):
        for seq in itertools.product(SHORT, repeat=n):
            yield [(a, None) for a in seq]


def worker(ctx, job):
    rig = Rig(ctx)
    if rig.redo_kw is None or rig.timeout_kw is None:
        ctx.inconclusive_case("Exchange.__init__ has no timeout / redo keyword: %r" % (
            list(inspect.signature(rig.x.Exchange.__init__).parameters),))
        return
    ctx.hit("redo_keyword_" + rig.redo_kw)
    rng = ctx.subrng("c38", job["index"])
    for cname, Ti, Ri in job["configs"]:
        T, R = TIMEOUTS[Ti], REDOS[Ri]
        ctx.hit("configurations")
        if cname == "Exchangent":
            # correspondent: start(rx) answers and finishes at once; only construction and start are in scope
            for t0 in (Fraction(0), Fraction(21, 2)):
                built = rig.build(cname, T, R, t0)
                ctx.case({"class": cname, "timeout": str(T), "redo": str(R), "t0": str(t0)}, nontrivial=built is not None)
                if built is None:
                    continue
                ex = built[0]
                try:
                    ex.start(rx="r0")
                    ctx.check(ex.done and not ex.failed, "Exchangent/start-does-not-finish",
                              "Exchangent.start(rx) did not finish the exchange successfully", {"timeout": str(T), "redo": str(R)})
                except Exception as e:
                    ctx.fail("Exchangent/start-raises/" + exc_key(e), "Exchangent.start raises %r" % (e,), {})
            continue
        if job["kind"] == "short":
            for k, steps in enumerate(short_schedules()):
                rig.schedule(cname, T, R, Fraction(0) if k % 2 else Fraction(21, 2), Fraction(0), steps, "short")
                ctx.hit("short_schedules")
        else:
            for k in range(job["n"]):
                steps = []
                scale = rng.choice((1, 1, 2, 4, 8))
                for _ in range(rng.randint(10, 60)):
                    adv = Q * rng.choice((0, 1, 1, 2, 2, 4, 4, 8, 16, 64)) * scale / rng.choice((1, 1, 2))
                    adv = Fraction(int(adv / Q)) * Q
                    msg = ("m%d" % (len(steps) + 1)) if rng.random() < 0.12 else None
                    steps.append((adv, msg))
                delay = Q * rng.choice((0, 0, 1, 8, 40))
                rig.schedule(cname, T, R, rng.choice((Fraction(0), Fraction(21, 2))), delay, steps, "random")
                ctx.hit("random_schedules")
                if k % 3 == 0:
                    rig.schedule(cname, T, R, Fraction(0), delay, steps, "random", real=True)
                    ctx.hit("random_schedules_on_a_real_stack")
                if k % 3 == 1 and cname == "Exchange":
                    rig.schedule(cname, T, R, Fraction(0), delay, steps, "random", notx=True)
                if k == 0 and job["index"] % 7 == 0:
                    ctx.sample({"class": cname, "timeout": str(T), "redo": str(R), "delay_before_start": str(delay),
                                "first_steps": [(str(a), m) for a, m in steps[:8]]})


def run(ctx):
    configs = [(c, ti, ri) for c in CLASSES for ti in range(len(TIMEOUTS)) for ri in range(len(REDOS))]
    from vf import fnref
    jobs = [{"kind": "short", "configs": ch} for ch in fnref.chunks(configs, ctx.pick(12, 16))]
    nrand = ctx.pick(20, 3000)
    parts = ctx.pick(8, 32)
    active = [c for c in configs if c[0] != "Exchangent"]
    for p in range(parts):
        jobs.append({"kind": "random", "configs": active[p::parts], "n": nrand})
    ctx.shard(jobs, timeout=ctx.pick(90, 1500))
    ctx.exhaustive = True
    ctx.extra["exhaustive_scope"] = ("all 147 (class, timeout, redo) configurations; for Exchange and Exchanger all "
                                     "schedules of 1..4 advances from {0, 1/4, 1/2, 1}")
    nconf = len(configs)
    nact = len(active)
    ctx.floor("configurations", nconf + nact)
    ctx.floor("constructed", nact * 340 // 2)
    ctx.floor("short_schedules", nact * 340 // 2)
    ctx.floor("random_schedules", nact * nrand // 2)
    ctx.floor("redo_due", nact * 40)
    ctx.floor("timeout_due", nact * 40)
    ctx.floor("timeout_due_exactly", nact * 5)
    ctx.floor("process_with_timeout_zero", nact * 20)
    ctx.floor("new_message_sent", nrand * 20)
    ctx.floor("events", nact * 340)
    ctx.floor("real_stack_steps", nact * nrand)
    ctx.floor("redo_interval_elapsed_with_nothing_to_send", 200)
