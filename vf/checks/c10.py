"""C10 a conditional auxiliary suspends the frames below its main frame (engine A)."""
from vf.flo import common

LEVEL = "exploration"
RULE = ("seeded random programs with conditional auxiliaries at depth 1-3 of the outline whose conditions a driver toggles at "
        "generated ticks; auxiliaries that complete immediately, after k ticks, or never; the aux clause before / between / after "
        "the main frame's go clauses; transitions that leave the main frame from above and from the main frame itself; stop "
        "bids; conditional auxiliaries guarded by update / change conditions with an entry guard that opens later, or completing at once (start-tick model); distinct = distinct program text; non-trivial = a conditional aux was activated and stayed running at least one tick")
RULE = __import__("vf.core", fromlist=["rule_add"]).rule_add(RULE, 'also one conditional aux shared by sibling frames with an entry guard that opens later')
META = {"engine": "A floscript", "technique": "suspension automaton over the recorded trace + differential check against the "
                                               "reference interpreter",
        "level_text": "While a conditional aux is observed running, every action of the frames below its main frame is an alarm unless the "
                      "aux completes in that run (recur only, after the aux exits, no enter) or the main frame is exited (exit only); a "
                      "still-running aux forbids later transitions of that run; activation must enter the first outline and run once; "
                      "an immediately-done aux must be exited at once; an exited main frame takes the aux with it.",
        "level_note": "Activation instants (first evaluation at which the condition holds) are decided by the reference interpreter comparison."}

FEATS = [
    dict(naux=(1, 3), p_condaux=0.7, nframes=(3, 7), p_nest=0.75, ngo=(0, 2), nplan=(4, 9), ticks=(12, 24), p_uncond_go=0.03),
    dict(naux=(2, 4), p_condaux=0.6, p_aux=0.2, nframes=(3, 7), p_nest=0.75, ngo=(0, 2), nplan=(4, 9), ticks=(12, 24),
         p_stop_bid_mid=0.4, p_let=0.15),
    # nested suspensions: conditional auxes on several frames of one chain, the lower ones started first
    # (vf.flo.gen.nested_condaux_program)
    dict(family="nested"),
    # one original aux as the conditional aux of two sibling frames, re-used after it was forced out or completed
    # (vf.flo.gen.shared_condaux_program)
    dict(family="shared"),
]


from vf.flo import prog as P


def gate_shared(rng, prog):
    """the shared conditional aux gets an entry guard that opens later (`let me if .c1 == 1` in its first frame, the
    driver sets .c1 at one of its later steps): while the guard is closed every attempt is refused -- under whichever
    sibling frame the framer is -- and a refused attempt must leave the auxiliary free for the next frame that asks"""
    h = prog["houses"][0]
    aux = [fr for fr in h["framers"] if fr["name"] == "a0"][0]
    aux["frames"][0]["stmts"].insert(0, {"v": "let", "needs": [P.cmp(".c1", "==", 1)]})
    drv = [fr for fr in h["framers"] if fr["name"] == "drv"][0]
    later = [f for f in drv["frames"][1:] if f["name"] != "dfin"] or drv["frames"][:1]
    rng.choice(later)["stmts"].insert(0, {"v": "put", "data": {"value": 1}, "dst": ".c1", "ctx": None})


def worker(ctx, job):
    import random
    from vf.flo import monitors
    if job.get("sg"):
        common.flo_worker(ctx, {"items": job["sg"]}, [dict(family="shared")],
                          [monitors.suspend_monitor, monitors.bracket_monitor, monitors.outline_monitor], mutate=gate_shared,
                          nontrivial=lambda d: d.get("cond_aux_later_or_never", 0) >= 1,
                          sem_flags=("condaux_activated", "guard_refused", "condaux_guard_refused"))
        ctx.hit("shared_condaux_with_an_entry_guard", len(job["sg"]))
    # a conditional aux whose condition is an update / change condition and whose entry guard opens later than the
    # condition first holds: "when its conditions hold and it is not running, it is entered" at the first evaluation at
    # which it can be entered -- the refused evaluations before that one must not use the update up (family and model
    # shared with the C08 check)
    from vf.checks import c08
    for seed in job.get("gca", []):
        case = c08.gated_condaux_case(random.Random(seed))
        r = c08.gated_condaux_eval(case)
        if r[0] == "nobuild":
            ctx.inconclusive_case("gated conditional aux program did not build: %s" % (r[1],))
            continue
        if r[0] == "raised":
            ctx.fail("gated-condaux/run-raised", "run raised %s" % r[1], {"program": case["text"]})
            continue
        ctx.event()
        ctx.hit("gated_condaux_histories")
        if r[2] and r[3] is not None:
            ctx.hit("gated_condaux_started_after_refusals")
        if case["oneshot"]:
            ctx.hit("oneshot_condaux_histories")
            ctx.hit("oneshot_condaux_starts", r[4])
        ctx.case(case["text"], nontrivial=bool(r[2]), sample=None)
        ctx.check(r[0] == "ok", "gated-condaux/not-entered-when-its-conditions-hold-and-it-can-be",
                  "conditional aux guarded by `%s`, entry guard opening at tick %d: %s" % (case["kind"], case["gate"] - 1, r[1]),
                  lambda: {"program": case["text"], "case": {k: v for k, v in case.items() if k != "text"}, "result": r[1],
                           "refused_attempts_before": r[2]})
    common.flo_worker(ctx, job, FEATS, [monitors.suspend_monitor, monitors.bracket_monitor, monitors.outline_monitor],
                      nontrivial=lambda d: d.get("cond_aux_later_or_never", 0) >= 1,
                      sem_flags=("condaux_activated", "condaux_completed", "condaux_immediate", "condaux_truncated",
                                 "transition_while_suspended", "exit_all_while_suspended"))


def run(ctx):
    from vf.flo import gen
    n = ctx.pick(500, 30000)
    items = [(ctx.rng.randrange(1 << 30), i % gen.nfeats(FEATS, ctx)) for i in range(n)]
    gca = [ctx.rng.randrange(1 << 30) for _ in range(ctx.pick(160, 6000))]
    sg = [(ctx.rng.randrange(1 << 30), 0) for _ in range(ctx.pick(240, 8000))]
    ctx.shard([{"items": items[i::16], "gca": gca[i::16], "sg": sg[i::16]} for i in range(16)], timeout=ctx.pick(300, 1500))
    ctx.floor("shared_condaux_with_an_entry_guard", 100)
    for k, v in {"cond_aux_activations": 50, "cond_aux_immediate": 10, "cond_aux_later_or_never": 10, "cond_aux_completions": 10,
                 "main_exited_while_suspended": 10, "later_clauses_skipped": 10, "runs_while_aux_running": 100, "resumed_same_tick": 5,
                 "nested_lower_aux_suspended": 100, "nested_running_conditional_auxes": 300,
                 "gated_condaux_started_after_refusals": 30}.items():
        ctx.floor(k, v)
