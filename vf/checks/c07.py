"""C07 framer runs agree with a reference interpreter of FloScript semantics.

Real run (recorder events, tick snapshots of status / active frames / done,
watched store values) versus vf.flo.refint on the same AST, tick by tick.
"""
import itertools
import random

from vf.flo import prog as P, gen

LEVEL = "exploration"
RULE = ("seeded random programs with all features on (frame forests, go/timeout/repeat, let guards, actions in every context, "
        "put/inc/copy/set, plain and conditional auxiliaries, done needs, bids, slaves+fiats, periods, orders) plus a "
        "bounded-exhaustive tiny grammar (1 framer, 3 frames, 4 nestings, per frame none or one go with 3 targets x 3 conditions); programs with singly used auxiliary framers also run as clones of moot framers against the same reference run; twin clones of one moot framer with update / change conditions against the marker-rule model; "
        "distinct = distinct program text; non-trivial = the program took >= 2 transitions")
RULE = __import__("vf.core", fromlist=["rule_add"]).rule_add(RULE, 'also the frames declared in another order; programs whose framers have periods and receive bids that carry a period (also 0)')
META = {"engine": "A floscript", "technique": "differential runtime monitoring against an independent executable reference interpreter",
        "level_text": "Every recorder event, per-tick framer status / active outline / done flag and watched store value of each generated "
                      "program is compared with an AST-level interpreter of the documented semantics; the first divergence is the witness.",
        "level_note": "Trusts the reference interpreter (vf/flo/refint.py, DESIGN Appendix A); corners listed in A.9 are not generated."}

FEATS = [
    dict(p_let=0.3, p_pokes=0.4, p_inactive=0.1, order=True, p_period=0.2, p_bids=0.15),
    dict(p_let=0.3, p_pokes=0.3, p_aux=0.5, naux=(1, 3), p_done_need=0.3),
    dict(p_let=0.2, p_pokes=0.2, p_aux=0.2, naux=(1, 3), p_condaux=0.5, p_stop_bid_mid=0.3),
    dict(p_let=0.3, p_pokes=0.2, nslaves=(1, 2), p_fiat=0.5, p_bids=0.3, p_inactive=0.3, order=True, p_period=0.2,
         p_stop_bid_mid=0.3),
    dict(p_let=0.25, p_pokes=0.3, p_aux=0.3, naux=(1, 2), p_condaux=0.3, nslaves=(0, 1), p_fiat=0.3, p_bids=0.2,
         p_done_need=0.2, p_inactive=0.15, order=True, p_period=0.15, p_stop_bid_mid=0.2),
]

# bids that carry a period (`bid start x at 0`, also zero and equal to the tick) for framers that have a period of their own
FEAT_PERIODS = dict(nframers=(2, 4), p_let=0.2, p_pokes=0.3, p_bids=0.6, p_inactive=0.4, order=True, p_period=0.6, p_bid_period=0.6,
                    p_stop_bid_mid=0.3)

TINY_CONDS = [None, P.cmp(".c0", "==", 1), P.cmp("recurred", ">=", 2)]
TINY_NEST = [(None, None, None), (None, "f0", None), (None, "f0", "f0"), (None, "f0", "f1")]


def tiny_programs():
    opts = [None] + [(t, c) for t in ("f0", "f1", "f2") for c in range(3)]
    for nest in TINY_NEST:
        for combo in itertools.product(range(len(opts)), repeat=3):
            yield nest, [opts[i] for i in combo]


def tiny_prog(nest, combo):
    frames = []
    for i in range(3):
        name = "f%d" % i
        st = [P.rec("m.%s.%s" % (name, c), c) for c in gen.REC_CTX]
        if combo[i]:
            t, c = combo[i]
            st.append(P.go(t, [TINY_CONDS[c]] if TINY_CONDS[c] else []))
        frames.append(P.frame(name, st, over=nest[i]))
    drv = P.framer("drv", [
        P.frame("d0", [{"v": "repeat", "n": 3}]),
        P.frame("d1", [{"v": "put", "data": {"value": 1}, "dst": ".c0", "ctx": None}, {"v": "repeat", "n": 3}]),
        P.frame("d2", [{"v": "put", "data": {"value": 0}, "dst": ".c0", "ctx": None}, {"v": "repeat", "n": 3}]),
        P.frame("dfin", [{"v": "bid", "ctl": "stop", "who": ["all"], "ctx": None}])], order="front")
    prog = P.program([P.house("h", [drv, P.framer("m", frames)], inits=[[".c0", {"value": 0}]])])
    prog["ticks"] = 10
    return prog


def compare_one(ctx, prog, watch, kind, cloned=None):
    """cloned = (program, alias) from gen.cloneify: that program is really run, its clones reported under the names of the
    auxiliary framers they stand for, and compared with the reference run of `prog`"""
    from vf.flo import runner, refint, compare
    text = P.render(cloned[0] if cloned else prog)
    cap = prog["ticks"] + 12
    res = runner.run_text(text, maxticks=cap, watch=watch, alias=cloned[1] if cloned else None)
    if not res.built:
        # the generators only emit well-formed scripts (they all build on the reference semantics' side)
        ctx.fail("well-formed-program-rejected", "a well-formed generated program did not build: %r %s" % (
            res.build_error, res.build_msgs[-1:]), {"program": text, "error": repr(res.build_error), "messages": res.build_msgs[-3:]})
        return
    try:
        ref = refint.Ref(prog, maxticks=cap).run()
    except refint.Unsupported as e:
        ctx.hit("excluded_corner")
        ctx.extra.setdefault("excluded", {})
        ctx.extra["excluded"][str(e)] = ctx.extra["excluded"].get(str(e), 0) + 1
        return
    ctx.event(len(res.trace) + len(res.ticks))
    for fl in ref.flags:
        ctx.hit("sem_" + fl)
    ntrans = sum(1 for e in ref.trace if e["ctx"] == "enter")
    if res.exc is not None:
        ctx.fail("run-raised/%s" % type(res.exc).__name__, "run raised %r" % (res.exc,), {"program": text})
        return
    d = compare.first_divergence(res, ref, watch)
    ctx.case(text, nontrivial=ntrans >= 3, sample={"kind": kind, "program": text, "events": len(res.trace)}
             if (ntrans >= 3 and len(text) < 1800) else None)
    if d is None:
        ctx.check(True, "ok")
        return
    # the suspended-frames finding: the property-level reference exits frames suspended under a
    # conditional aux; the implementation does not.  It is recognised only if (1) the first diverging
    # expected event is such an exit and (2) a reference that copies that single behaviour agrees on
    # the whole run -- any other difference is a violation of its own.
    if d["kind"].startswith("event") and d.get("expected") is not None:
        i = d["index"]
        if i < len(ref.trace) and ref.trace[i].get("susp"):
            ref2 = refint.Ref(prog, maxticks=cap, mode="code").run()
            d2 = compare.first_divergence(res, ref2, watch)
            if d2 is None:
                ctx.fail("suspended-frames-not-exited",
                         "frames suspended under a running conditional aux are not exited when the framer stops or transitions away",
                         {"program": text, "divergence": d})
                return
            d = d2
    ctx.fail("refint-divergence/%s" % d["kind"], "real run and reference interpreter differ: %s" % (
        {k: v for k, v in d.items() if not k.startswith("context")},), {"program": text, "divergence": d, "kind": kind})


def worker(ctx, job):
    if job["kind"] == "twin":
        # two scheduled framers each running its own clone of one moot framer under the same clone tag, the moot's
        # transitions guarded by `is updated` / `is changed`: each clone must run as the marker-rule reference (the
        # model of the C20 check) says the framer itself runs
        from vf.checks import c20
        for case in job["items"]:
            nf = len(ctx.fails)
            c20.check_case(ctx, case)
            for f in ctx.fails[nf:]:
                f["key"] = "twin-clones/" + f["key"]
            for k in list(ctx.fail_counts):
                if k.startswith("marker-condition/"):
                    ctx.fail_counts["twin-clones/" + k] = ctx.fail_counts.get("twin-clones/" + k, 0) + ctx.fail_counts.pop(k)
        return
    if job["kind"] == "tiny":
        for nest, combo in job["items"]:
            compare_one(ctx, tiny_prog(nest, combo), [".c0"], "tiny")
            ctx.hit("tiny_programs")
    else:
        for seed, fi in job["items"]:
            rng = random.Random(seed)
            if fi == 100:
                prog = gen.gen_program(rng, gen.feat(**FEAT_PERIODS))
                ctx.hit("programs_with_periods_and_period_bids")
                ctx.hit("bids_with_a_period", sum(1 for h in prog["houses"] for fr in h["framers"] for f in fr["frames"]
                                                 for st in f["stmts"] if st["v"] == "bid" and st.get("at") is not None))
            else:
                prog = gen.gen_program(rng, gen.pickfeat(FEATS, fi))
            compare_one(ctx, prog, gen.WATCH, "random/%d" % fi)
            ctx.hit("random_programs")
            # the same frames declared in another order (children before parents, `under x` after x): a program of its own
            if fi != 100 and (seed >> 3) % 4 == 0:
                p3 = gen.shuffle_frames(prog, random.Random(seed ^ 0xF4A3E))
                if p3 is not None:
                    compare_one(ctx, p3, gen.WATCH, "reordered/%d" % fi)
                    ctx.hit("programs_with_frames_declared_in_another_order")
            # the same program with auxiliary framers turned into clones of moot framers: same reference run
            p2, alias = gen.cloneify(prog, random.Random(seed ^ 0x5EED))
            if alias:
                compare_one(ctx, prog, gen.WATCH, "cloned/%d" % fi, cloned=(p2, alias))
                ctx.hit("cloned_aux_variants")
                ctx.hit("cloned_aux_framers", len(alias))


def run(ctx):
    tiny = list(tiny_programs())
    ctx.extra["tiny_grammar_size"] = len(tiny)
    if ctx.quick:
        tiny = ctx.rng.sample(tiny, len(tiny) // 10)
    else:
        ctx.extra["tiny_grammar_exhaustive"] = True
    nrand = ctx.pick(700, 60000)
    items = [(ctx.rng.randrange(1 << 30), i % gen.nfeats(FEATS, ctx)) for i in range(nrand)]
    n = 16
    jobs = [{"kind": "tiny", "items": tiny[i::n]} for i in range(n)] + [{"kind": "rand", "items": items[i::n]} for i in range(n)]
    from vf.checks import c20
    opts = c20.need_opts()
    twins = [c20.random_case(ctx.rng, opts, twin=True) for _ in range(ctx.pick(240, 8000))]
    jobs += [{"kind": "twin", "items": twins[i::n]} for i in range(n)]
    pitems = [(ctx.rng.randrange(1 << 30), 100) for i in range(ctx.pick(160, 12000))]
    jobs += [{"kind": "rand", "items": pitems[i::n]} for i in range(n)]
    ctx.floor("bids_with_a_period", 40)
    ctx.floor("twin_clone_histories", 50)
    ctx.shard(jobs, timeout=ctx.pick(300, 1500))
    ctx.floor("distinct_nontrivial", 300)
    ctx.floor("cloned_aux_variants", 20)
    for fl in ("transition", "transition_refused", "guard_refused", "aux_entered", "condaux_activated", "condaux_truncated",
               "fiat_start", "start_failed"):
        ctx.floor("sem_" + fl, 5)
