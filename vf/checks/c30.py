"""C30 HTTP requests and WSGI responses survive the round trip (engine E).

Each case: a generated request (method, unicode path, query args, headers and
one of binary body / JSON data / form args / multipart form args) is given to
the real client ``Patron.request`` (-> ``Requester.build``), carried over an
in-memory connection (or real loopback for a sample) to the real ``Valet``
(``Requestant`` -> ``buildEnviron`` -> generated WSGI application ->
``Responder``) and back into the client's ``Respondent``.

Oracle: the WSGI application's view (environ snapshot + server Requestant)
equals the generated request; the client's response equals what the
application produced (status, reason, headers, body), errors included.
Query strings, form bodies and JSON are decoded by urllib / json, not ioflo.
"""
import json
import random
import socket
import time
from urllib.parse import parse_qsl

from vf import httpgen as hg
from vf.core import exc_key, digest

LEVEL = "exploration"
RULE = ("request = method(all 9) x unicode path (reserved and percent characters, no '?' '#' or control characters) x "
        "0-3 query args (URL-token names, arbitrary string values) x 0-3 latin-1 headers x payload "
        "(none|binary body|JSON|urlencoded form|multipart form; arbitrary values incl. & = + % blank unicode); "
        "response = WSGI application shape (fixed, fixed in pieces, streamed, streamed with empty yields, empty, "
        "empty with length 0, generator return value, write() callable, HTTPError raised by the callable / before "
        "the first yield / after an empty yield / after the first write) x status x headers x binary body; "
        "distinct = distinct (request inputs, application spec); non-trivial = the application was reached and a "
        "response came back")
RULE = __import__("vf.core", fromlist=["rule_add"]).rule_add(RULE, 'also choppy connections, Connection: close requests, later requests that name no path, and the same Patron reconnected after a close (streamed responses next), raised errors that bring their own Content-Type, bodiless responses that declare a length')
META = {"engine": "E http", "technique": "round trip through real client and server objects against the generator's content",
        "level_text": "exploration: sampled requests x sampled application shapes, every shape and payload kind floor-counted",
        "level_note": "one request per connection (keep-alive sequences are C31); GET carries no body (documented client "
                      "behaviour); HEAD responses are compared without body; header names unique; PATH_INFO accepted "
                      "either as the unicode path or as its PEP 3333 latin-1 transcoding"}

ALLOWED_EXTRA = {"server", "date", "transfer-encoding", "content-length", "content-type"}


def jsonable(o):
    if isinstance(o, (bytes, bytearray)):
        return bytes(o).decode("latin-1")
    if isinstance(o, dict):
        return {str(k): jsonable(v) for k, v in o.items()}
    if isinstance(o, (list, tuple)):
        return [jsonable(v) for v in o]
    if isinstance(o, (str, int, float, bool)) or o is None:
        return o
    return repr(o)


def has_amp_eq(fargs):
    return any("&" in v or "=" in v or "&" in k or "=" in k for k, v in fargs)


def check_request(ctx, req, snap, reqt, wit):
    """Server side view vs generated request."""
    ck = lambda cond, key, what, extra=None: ctx.check(cond, key, what, lambda: wit(extra or {}))
    kind = req["kind"]
    ck(snap.get("REQUEST_METHOD") == req["method"] and reqt["method"] == req["method"], "request/method",
       "method seen by the server differs")
    ck(reqt["path"] == req["path"], "request/path", "path parsed by the server differs from the client's path",
       {"server_path": reqt["path"]})
    pi = snap.get("PATH_INFO")
    ck(pi in (req["path"], req["path"].encode("utf-8").decode("latin-1")), "environ/PATH_INFO",
       "PATH_INFO is neither the path nor its latin-1 transcoding", {"PATH_INFO": pi})
    qs = snap.get("QUERY_STRING", "")
    ck(qs == reqt["query"], "environ/QUERY_STRING", "QUERY_STRING differs from the query in the request line")
    try:
        got_q = parse_qsl(qs, keep_blank_values=True, strict_parsing=bool(qs))
    except ValueError as ex:
        got_q = ex
    ck(got_q == [(k, v) for k, v in req["qargs"]], "request/query-args", "query arguments decoded from QUERY_STRING differ",
       {"decoded": got_q, "QUERY_STRING": qs})
    # headers
    for name, value in req["headers"]:
        if name.lower() == "content-type" and kind == "multipart":
            continue
        ck(reqt["headers"].get(name.lower()) == str(value), "request/header-value",
           "a request header does not arrive with the same value", {"header": name, "arrived": reqt["headers"].get(name.lower())})
        ek = "HTTP_" + name.upper().replace("-", "_")
        ck(snap.get(ek) == str(value), "environ/HTTP_header", "environ lacks the HTTP_ variable of a request header",
           {"variable": ek, "value": snap.get(ek)})
    for name, value in reqt["headers"].items():
        ek = "HTTP_" + name.upper().replace("-", "_")
        ck(snap.get(ek) == value, "environ/HTTP_header", "environ HTTP_ variable differs from the parsed header",
           {"variable": ek, "value": snap.get(ek), "header": value})
    ck(snap.get("HTTP_HOST") == "%s:%d" % (req["host"], req["port"]), "environ/HTTP_HOST", "Host header is not host:port of the server",
       {"HTTP_HOST": snap.get("HTTP_HOST")})
    body = snap.get("wsgi.input.read")
    ck(isinstance(body, bytes) and body == reqt["body"], "environ/wsgi.input", "wsgi.input does not yield the parsed body")
    ck(snap.get("CONTENT_LENGTH") == str(len(reqt["body"])), "environ/CONTENT_LENGTH",
       "CONTENT_LENGTH is not the body length", {"CONTENT_LENGTH": snap.get("CONTENT_LENGTH")})
    ck(snap.get("CONTENT_TYPE", "") == reqt["headers"].get("content-type", ""), "environ/CONTENT_TYPE",
       "CONTENT_TYPE differs from the Content-Type header")
    ck(snap.get("SERVER_PROTOCOL") == "HTTP/1.1" and snap.get("wsgi.url_scheme") == "http" and
       snap.get("SERVER_PORT") == str(req["port"]) and snap.get("SCRIPT_NAME") == "",
       "environ/server-variables", "SERVER_PROTOCOL / wsgi.url_scheme / SERVER_PORT / SCRIPT_NAME inconsistent",
       {k: snap.get(k) for k in ("SERVER_PROTOCOL", "wsgi.url_scheme", "SERVER_PORT", "SCRIPT_NAME")})
    if body and isinstance(body, bytes):
        ck(reqt["headers"].get("content-length") == str(len(body)), "request/content-length-header",
           "Content-Length header differs from the body length")
    # payload
    b = reqt["body"]
    if kind == "none":
        ck(b == b"", "request/body", "a request without payload arrives with a body")
    elif kind == "body":
        ck(b == req["body"], "request/body", "binary body differs", {"arrived": b})
    elif kind == "json":
        try:
            got = json.loads(b.decode("utf-8"))
        except ValueError as ex:
            got = ex
        ck(got == req["data"] and not isinstance(got, Exception), "request/json", "JSON data differs after the trip", {"arrived": b})
        ck("application/json" in reqt["headers"].get("content-type", ""), "request/json-content-type",
           "JSON request lacks an application/json content type")
    elif kind == "form":
        try:
            got = parse_qsl(b.decode("utf-8"), keep_blank_values=True, strict_parsing=True)
        except ValueError as ex:
            got = repr(ex)
        key = "request/form-args/value-with-&-or-=" if has_amp_eq(req["fargs"]) else "request/form-args"
        ck(got == req["fargs"], key, "form arguments decoded from the urlencoded body differ", {"arrived": b, "decoded": got})
        ck("application/x-www-form-urlencoded" in reqt["headers"].get("content-type", ""), "request/form-content-type",
           "form request lacks the urlencoded content type")
    elif kind == "multipart":
        try:
            got = hg.parse_multipart(b, reqt["headers"].get("content-type", ""))
        except ValueError as ex:
            got = repr(ex)
        ck(got == req["fargs"], "request/multipart-args", "multipart form arguments differ", {"arrived": b, "decoded": got})


def check_response(ctx, spec, method, resp, wit):
    ck = lambda cond, key, what, extra=None: ctx.check(cond, key, what, lambda: wit(extra or {}))
    exp = spec["expect"]
    sh = spec["shape"]
    ck(not resp["errored"], "response/errored/" + sh, "client marks a well-formed response as errored", {"error": resp["error"]})
    ck(resp["status"] == exp["status"], "response/status/" + sh, "status differs", {"got": resp["status"]})
    ck(resp["reason"] == exp["reason"], "response/reason/" + sh, "reason phrase differs", {"got": resp["reason"]})
    hs = {str(k).lower(): v for k, v in resp["headers"].items()}
    for k, v in exp["headers"].items():
        ck(hs.get(k) == v, "response/header-value/" + sh, "a response header does not arrive with the same value",
           {"header": k, "arrived": hs.get(k)})
    extra = set(hs) - set(exp["headers"]) - ALLOWED_EXTRA
    ck(not extra, "response/extra-headers", "unexpected response headers", {"extra": sorted(extra)})
    if method == "HEAD":
        return
    ck(bytes(resp["body"]) == exp["body"], "response/body/" + sh, "response body differs from what the application produced",
       {"got": bytes(resp["body"])})


def one_case(ctx, rng, idx, mem, deadline, reconnect=False):
    """one connection: 1 request (mostly) or 2-3 requests one after the other through the same Patron (each with its own
    payload kind, so that nothing of an earlier request may survive in the client's requester or the server's requestant)"""
    nreq = rng.choice([1, 1, 1, 2, 2, 3])
    if reconnect:
        nreq = rng.choice([2, 3, 3])       # the first request asks to close; the patron reconnects and streams come next
    after_reconnect = False
    cur = {}
    seen = []
    app = hg.make_app(lambda environ: cur["spec"], seen)
    state = {"stage": "build"}
    pair = None
    req = spec = None
    wit = lambda extra: jsonable(dict({"request": req, "app": {k: v for k, v in (spec or {}).items()},
                                       "transport": "memory" if mem else "loopback"}, **extra))
    try:
        # some in-memory connections accept sends only partly / not at all and deliver in trickles (a response then
        # leaves the server over several service passes), and some requests ask for the connection to be closed after
        # the response (drawn from a generator of its own so that the cases stay what they were)
        r2 = random.Random(repr((ctx.job["index"] if ctx.job else 0, idx, "transport")))
        choppy = mem and r2.random() < 0.3
        pair = hg.Pair(app, rng=random.Random(r2.random()) if choppy else rng, mem=mem, choppy=choppy)
        if choppy:
            ctx.hit("choppy_connections")
        patron = pair.patron()
        earlier = []
        prev_path = None
        for k in range(nreq):
            state["stage"] = "build"
            rid = "r%d-%d-%d" % (ctx.job["index"] if ctx.job else 0, idx, k)
            req = hg.gen_request(rng, rid)
            if nreq > 1 and (req["method"] == "HEAD" or rng.random() < 0.12):
                # a response that has no body by definition (to HEAD, 204, 304): no-body semantics belong to the application,
                # so it produces none -- with or without a Content-Length -- and the connection must stay usable
                spec = hg.gen_appspec(rng, rid, shapes=("empty", "empty-cl0"),
                                      statuses=[s for s in sorted(hg.REASONS)] if req["method"] == "HEAD" else [204, 304],
                                      bodiless="HEAD" if req["method"] == "HEAD" else True)
                ctx.hit("bodiless_response_in_sequence")
            elif after_reconnect and rng.random() < 0.8:
                # a body produced piece by piece over several server passes: it reaches the client in several receives
                spec = hg.gen_appspec(rng, rid, shapes=("stream-gaps", "stream", "stream-gaps"), statuses=[200, 201, 404])
                ctx.hit("streamed_response_after_reconnect")
            else:
                spec = hg.gen_appspec(rng, rid, statuses=[s for s in sorted(hg.REASONS)])
            cur["spec"] = spec
            req["port"] = pair.port
            req["host"] = pair.host
            if (r2.random() < 0.25 or (reconnect and k == 0)) and not any(a.lower() == "connection" for a, v in req["headers"]):
                req["headers"] = list(req["headers"]) + [("Connection", "close")]
                ctx.hit("requests_asking_to_close")
                if choppy:
                    ctx.hit("requests_asking_to_close_on_choppy_connections")
            if k and prev_path is not None and r2.random() < 0.3:
                # a later request that names no path: the patron asks for the path of its previous request again
                req["path"] = prev_path
                kw = {"method": req["method"], "qargs": _od(req["qargs"]), "headers": _od(req["headers"])}
                ctx.hit("later_request_without_a_path")
            else:
                kw = {"method": req["method"], "path": req["path"], "qargs": _od(req["qargs"]), "headers": _od(req["headers"])}
            prev_path = req["path"]
            if req["kind"] == "body":
                kw["body"] = req["body"]
            elif req["kind"] == "json":
                kw["data"] = req["data"]
            elif req["kind"] in ("form", "multipart"):
                kw["fargs"] = _od(req["fargs"])
            patron.request(**kw)
            state["stage"] = "service"
            done = pair.pump(lambda: len(patron.responses) > k or time.time() > deadline, cap=120)
            ctx.event(pair.rounds)
            if time.time() > deadline:
                ctx.inconclusive_case("wall-clock watchdog")
                return
            reqbytes = bytes(patron.requester.msg)
            w2 = lambda extra: wit(dict({"request_bytes": reqbytes, "request_number_on_connection": k, "earlier_requests": earlier,
                                         "response_bytes": bytes(pair.net.conns[0][3].total) if mem else None}, **extra))
            reached = ctx.check(len(seen) == k + 1, "request/application-calls/%s" % ("none" if len(seen) <= k else "many"),
                                "the WSGI application was called %d times for %d request(s)" % (len(seen), k + 1), lambda: w2({}))
            if len(seen) > k:
                rq = list(pair.valet.reqs.values())
                # the Requestant of the connection (kept by the valet while the connection lives)
                reqt = None
                if rq:
                    r = rq[0]
                    reqt = {"method": r.method, "path": r.path, "query": r.query, "body": bytes(r.body),
                            "headers": {str(a).lower(): v for a, v in r.headers.items()}}
                if reqt is None:
                    snap = seen[k]
                    reqt = {"method": snap.get("REQUEST_METHOD"), "path": snap.get("PATH_INFO"), "query": snap.get("QUERY_STRING"),
                            "body": snap.get("wsgi.input.read"), "headers": {a[5:].lower().replace("_", "-"): v for a, v in snap.items()
                                                                            if a.startswith("HTTP_")}}
                    ctx.hit("requestant_gone")
                check_request(ctx, req, seen[k], reqt, w2)
            got = ctx.check(done and len(patron.responses) > k, "response/none/" + spec["shape"],
                            "no response reached the client within 120 service rounds", lambda: w2({}))
            if got:
                resp = patron.responses[k]
                check_response(ctx, spec, req["method"], resp, w2)
            ctx.case((earlier, req, {a: v for a, v in spec.items() if a != "expect"}), nontrivial=len(seen) > k and got)
            ctx.hit("kind:" + req["kind"])
            ctx.hit("shape:" + spec["shape"])
            ctx.hit("method:" + req["method"])
            ctx.hit("transport:" + ("memory" if mem else "loopback"))
            if k:
                ctx.hit("later_request_on_same_patron")
                if earlier[-1] != req["kind"]:
                    ctx.hit("later_request_other_payload_kind")
            if len(ctx.samples) < 2 and got:
                ctx.sample(jsonable({"request_bytes": reqbytes, "app_shape": spec["shape"],
                                     "client_got": {"status": patron.responses[k]["status"], "body": bytes(patron.responses[k]["body"])}}))
            earlier.append(req["kind"])
            conn = patron.connector
            if not got or len(seen) != k + 1 or conn.cutoff or not conn.connected or not conn.cs:
                break            # the connection did not persist (close-delimited response ...): the sequence ends here
            if any(a.lower() == "connection" and v.lower() == "close" for a, v in req["headers"]):
                # the request asked for the connection to be closed after its response: on real sockets the same patron
                # is connected again and goes on (what the previous connection's end left in the client is history)
                if mem or k + 1 >= nreq:
                    break
                pair.pump(lambda: conn.cutoff or time.time() > deadline, cap=60)
                if not conn.cutoff:
                    break
                patron.serviceAll()
                conn.reopen()
                conn.cs.setsockopt(socket.IPPROTO_TCP, socket.TCP_NODELAY, 1)
                if not pair.pump(lambda: conn.connected or time.time() > deadline, cap=60):
                    break
                ctx.hit("patron_reconnected_after_close")
                after_reconnect = True
    except Exception as ex:
        if isinstance(ex, (OSError, RuntimeError)) and state["stage"] == "build" and pair is None:
            raise                                   # the harness could not open its own sockets
        ctx.case((req, (spec or {}).get("shape")), nontrivial=False)
        ctx.fail("exception/%s/%s" % (state["stage"], exc_key(ex)),
                 "%s: %s escapes while a well-formed exchange is %s" % (type(ex).__name__, str(ex)[:120],
                                                                       "built" if state["stage"] == "build" else "serviced"),
                 wit({"shape": (spec or {}).get("shape"), "kind": (req or {}).get("kind")}))
        if spec:
            ctx.hit("shape:" + spec["shape"])
    finally:
        if pair:
            pair.close()


def _od(pairs):
    from ioflo.aid.odicting import odict
    return odict(pairs)


def worker(ctx, job):
    deadline = time.time() + job["budget"]
    rng = ctx.rng
    errs = []
    for i in range(job["n"]):
        if time.time() > deadline:
            ctx.inconclusive_case("wall-clock watchdog")
            break
        try:
            if i % job["loop_every"] == 5 and i // job["loop_every"] % 2 == 0:
                one_case(ctx, rng, i, mem=False, deadline=deadline, reconnect=True)
            one_case(ctx, rng, i, mem=(i % job["loop_every"] != 0), deadline=deadline)
        except (OSError, RuntimeError) as ex:      # the harness's own real sockets, never a verdict
            errs.append("%s: %s" % (type(ex).__name__, ex))
    hg.tolerate_socket_errors(ctx, errs, job["n"])


def run(ctx):
    n = ctx.pick(200, 40000)
    jobs = [{"n": n, "loop_every": 10, "budget": ctx.pick(25, 900)} for _ in range(16)]
    ctx.shard(jobs, timeout=ctx.pick(60, 1500))
    total = 16 * n
    ctx.floor("distinct_nontrivial", total // 3)
    ctx.floor("transport:loopback", total // 30)
    for k in ("none", "body", "json", "form", "multipart"):
        ctx.floor("kind:" + k, total // 60)
    for s in hg.APP_SHAPES:
        ctx.floor("shape:" + s, total // 60)
    ctx.floor("later_request_other_payload_kind", total // 12)
    ctx.floor("bodiless_response_in_sequence", total // 40)
    ctx.floor("requests_asking_to_close_on_choppy_connections", total // 60)
    ctx.floor("later_request_without_a_path", total // 40)
    ctx.floor("patron_reconnected_after_close", total // 100)
    ctx.floor("streamed_response_after_reconnect", total // 150)
    for m in hg.METHODS:
        ctx.floor("method:" + m, total // 60)
