"""C20 'is updated' / 'is changed' conditions report changes since the mark (engine A).

Small programs: one watched share, a writer framer (in front of or behind the
observed framer in the tick order) writing planned values (or adding fields through a deed) at planned ticks, and
an observed framer whose flat frames each carry one go clause, unconditional or
guarded by an update / change condition with or without `in frame` and shared
`by` marks.  Observed: which frame is active at the end of every tick.
Oracle: the rules of the property statement transcribed on tick numbers.
"""
import random

from vf.flo import prog as P

LEVEL = "exploration"
RULE = ("histories = (write plan: tick -> value, same or different values, writer before or after the observed framer in the tick) x "
        "(2-3 flat frames, each with one go: unconditional, `is updated` or `is changed`, with / without `in frame [name]`, with / "
        "without shared `by` marks); a slice is enumerated exhaustively (all 2-frame programs over the option grid x 6 write plans), "
        "the rest is seeded random; histories in which an entry reset and a taken-transition reset hit the same mark in the same "
        "tick are counted ambiguous and excluded; the observed framer as two clones of a moot framer; update / change conditions as the condition of a conditional auxiliary (refused starts, one-shot auxiliaries); distinct = distinct (program, plan); non-trivial = at least one marker-guarded "
        "transition taken and one refused")
RULE = __import__("vf.core", fromlist=["rule_add"]).rule_add(RULE, 'also both kinds of marker (update and change) on one frame and share, twin clones of one moot, gated conditional auxiliaries')
META = {"engine": "A floscript", "technique": "runtime monitor of per-tick active frame vs marker-rule model on tick numbers",
        "level_text": "The active frame at the end of every tick of each generated history is compared with a direct transcription of the "
                      "statement's rules (mark set on entry to the named frame and on every taken guarded transition; same-tick update "
                      "counts after an entry reset, not after a taken-transition reset; any update counts before the first mark; changed "
                      "compares field values with the snapshot, true before the first snapshot).",
        "level_note": "Flat frames only, one go per frame, so the expected transition of every tick is fully determined by the rules under test."}

TICKS = 14


def need_opts():
    out = [None]
    for kind in ("updated", "changed"):
        for frame in (None, "me!", "A", "B"):
            for by in (None, "k"):
                out.append({"n": kind, "path": ".w", "frame": frame, "by": by, "neg": False})
    return out


def wstmt(v):
    """the driver's write: a value for the field `value`, or ("add", name, val): a deed sets field `name`, which the share
    does not have before the first such write (a field added since the snapshot)"""
    if isinstance(v, (list, tuple)):
        return {"v": "raw", "text": 'do vf add field with path ".w" name "%s" val %d at enter' % (v[1], v[2])}
    return {"v": "put", "data": {"value": v}, "dst": ".w", "ctx": None}


def apply_write(fields, v):
    if isinstance(v, (list, tuple)):
        fields[v[1]] = v[2]
    else:
        fields["value"] = v


def build(case):
    frames = []
    gates = case.get("gates") or {}
    for f in case["frames"]:
        st = [P.rec("m.%s.en" % f["name"], "enter")]
        if f["name"] in gates:      # entry guard: the frame can be entered from tick gates[name] - 1 on (.g counts ticks)
            st.insert(0, {"v": "let", "needs": [P.cmp(".g", ">=", gates[f["name"]])]})
        st.append(P.go(f["far"], [f["need"]] if f["need"] else []))
        if f["name"] in (case.get("exitw") or {}):
            # an exit action of the frame writes the watched share: it runs after the transition's transit actions
            st.append({"v": "put", "data": {"value": case["exitw"][f["name"]]}, "dst": ".w", "ctx": "exit"})
        frames.append(P.frame(f["name"], st))
    plan = case["plan"]            # list of (tick, value)
    dframes = []
    prev = 0
    for i, (t, v) in enumerate(plan):
        st = []
        if i > 0:
            st.append(wstmt(plan[i - 1][1]))
        st.append({"v": "repeat", "n": t - prev})
        dframes.append(P.frame("d%d" % i, st))
        prev = t
    st = []
    if plan:
        st.append(wstmt(plan[-1][1]))
    st.append({"v": "repeat", "n": max(1, TICKS - prev)})
    dframes.append(P.frame("dl", st))
    dframes.append(P.frame("dfin", [{"v": "bid", "ctl": "stop", "who": ["all"], "ctx": None}]))
    drv = P.framer("drv", dframes, order=case["writer"])
    m = P.framer("m", frames)
    framers = [drv, m]
    if case.get("twin"):
        # the observed framer is a moot framer; two scheduled framers each run their own clone of it, under the same
        # clone tag: every clone keeps its own marks and must behave as the framer itself would
        m["sched"] = "moot"
        if case["twin"] == "same":      # both clones under one frame of one framer
            framers.append(P.framer("hA", [P.frame("h0", [{"v": "aux", "aux": "m", "as": "ka"}, {"v": "aux", "aux": "m", "as": "kb"}])]))
        else:
            for h in ("hA", "hB"):
                framers.append(P.framer(h, [P.frame("h0", [{"v": "aux", "aux": "m", "as": case["twin"]}])]))
    inits = [[".w", {"value": 0}]]
    if gates:
        gk = P.framer("gk", [P.frame("g0", [{"v": "inc", "dst": ".g", "data": {"value": 1}, "ctx": "recur"}])], order="front")
        framers.insert(0, gk)
        inits.append([".g", {"value": 0}])
    return P.program([P.house("h", framers, inits=inits)])


def model(case):
    """returns (list of active frame per tick, ambiguous flag, stats)"""
    names = [f["name"] for f in case["frames"]]
    fr = {f["name"]: f for f in case["frames"]}
    writes = dict(case["plan"])
    fields = {"value": 0}          # the watched share, field by field
    upd = None                     # tick of last runtime update
    marks = {}                     # key -> {"tick", "transit_tick", "snap"}
    entry_marks = {}               # frame -> [(key, kind)] markers installed as first enter action of that frame
    for f in case["frames"]:
        n = f["need"]
        if n and n.get("frame"):
            named = f["name"] if n["frame"] == "me!" else n["frame"]
            key = n.get("by") or named
            entry_marks.setdefault(named, [])
            if (key, n["n"]) not in entry_marks[named]:
                entry_marks[named].append((key, n["n"]))

    def keyof(f, n):
        named = f["name"] if n.get("frame") in (None, "me!") else n["frame"]
        return n.get("by") or named

    def reset(key, kind, t, how):
        mk = marks.setdefault((key, kind), {"tick": None, "transit": None, "snap": None, "entry": None})
        if kind == "updated":
            mk["tick"] = t
        else:
            mk["snap"] = dict(fields)
            mk["tick"] = t
        mk[how] = t

    def holds(f, n, t):
        mk = marks.get((keyof(f, n), n["n"]))
        if n["n"] == "updated":
            if upd is None:
                return False
            if mk is None or mk["tick"] is None:
                return True
            return upd > mk["tick"] or (upd == mk["tick"] and mk["transit"] != mk["tick"])
        if mk is None or mk["tick"] is None:
            return True
        return fields != mk["snap"]        # fields are never removed: differs = some value differs or a field was added

    active = names[0]
    out = []
    ambiguous = False
    stats = {"taken": 0, "refused": 0, "same_tick_entry": 0, "same_tick_transit": 0, "before_first_mark": 0,
             "guard_refused_marker_transition": 0, "guard_refused": 0, "taken_on_added_field_only": 0}
    gates = case.get("gates") or {}
    exitw = case.get("exitw") or {}
    stats["exit_writes"] = 0

    def enter(name, t):
        for key, kind in entry_marks.get(name, []):
            reset(key, kind, t, "entry")

    for t in range(TICKS + 3):
        if case["writer"] == "front" and t in writes and t >= 1:
            pass
        # writer position: driver frame i is entered at tick plan[i-1][0] and its enter action writes then
        wnow = t in writes
        if wnow and case["writer"] == "front":
            apply_write(fields, writes[t])
            upd = t
        if t == 0:
            enter(active, 0)
        else:
            f = fr[active]
            n = f["need"]
            take = True
            if n:
                mk = marks.get((keyof(f, n), n["n"]))
                take = holds(f, n, t)
                if take:
                    stats["taken"] += 1
                    if n["n"] == "changed" and mk and mk["snap"] is not None and len(fields) > len(mk["snap"]) and \
                            all(fields[k] == v for k, v in mk["snap"].items()):
                        stats["taken_on_added_field_only"] += 1
                    if mk is None or mk["tick"] is None:
                        stats["before_first_mark"] += 1
                    elif n["n"] == "updated" and upd == mk["tick"]:
                        stats["same_tick_entry"] += 1
                else:
                    stats["refused"] += 1
                    if n["n"] == "updated" and mk and upd is not None and upd == mk["tick"]:
                        stats["same_tick_transit"] += 1
            far = names[(names.index(active) + 1) % len(names)] if f["far"] == "next" else (active if f["far"] == "me" else f["far"])
            if take and far in gates and t + 1 < gates[far]:
                # the target's entry guard refuses the transition: nothing happens, in particular the mark guarding the
                # transition is not reset (C08: a refused transition runs none of its transit actions)
                take = False
                stats["guard_refused"] += 1
                if n:
                    stats["guard_refused_marker_transition"] += 1
            if take:
                if n:
                    reset(keyof(f, n), n["n"], t, "transit")
                if active in exitw:          # exit action of the frame being left: after the transit actions
                    fields["value"] = exitw[active]
                    upd = t
                    stats["exit_writes"] += 1
                active = far
                enter(active, t)
                for mk in marks.values():
                    if mk["entry"] == t and mk["transit"] == t:
                        ambiguous = True
        if wnow and case["writer"] == "back":
            apply_write(fields, writes[t])
            upd = t
        out.append(active)
    return out, ambiguous, stats


def check_case(ctx, case):
    from vf.flo import runner
    prog = build(case)
    text = P.render(prog)
    res = runner.run_text(text, maxticks=TICKS + 6)
    if not res.built:
        ctx.inconclusive_case("program did not build: %s\n%s" % (res.build_msgs[-1:], text))
        return
    if res.exc is not None:
        ctx.fail("run-raised/%s" % type(res.exc).__name__, "run raised %r" % (res.exc,), {"program": text})
        return
    exp, amb, stats = model(case)
    if amb:
        ctx.hit("ambiguous_histories")
        return
    if case.get("twin"):
        ctx.hit("twin_clone_histories")
        whos = ["hA_ka", "hA_kb"] if case["twin"] == "same" else [
            "%s_%s" % (h, "m1" if case["twin"] == "mine" else case["twin"]) for h in ("hA", "hB")]
        ctx.hit("twin_clones_" + ("in_one_frame" if case["twin"] == "same" else "in_two_framers"))
        for who in whos:
            _judge(ctx, case, text, [t["framers"][who]["active"] for t in res.ticks[1:]], exp, stats, who)
        return
    _judge(ctx, case, text, [t["framers"]["m"]["active"] for t in res.ticks[1:]], exp, stats, "m")


def _judge(ctx, case, text, obs, exp, stats, who):
    ctx.event(len(obs))
    n = min(len(obs), len(exp), TICKS)
    for k, v in stats.items():
        ctx.hit(k, v)
    for f in case["frames"]:
        if f["need"]:
            ctx.hit("need_" + f["need"]["n"])
            if f["need"].get("frame"):
                ctx.hit("with_in_frame")
            if f["need"].get("by"):
                ctx.hit("with_by")
    if len(set((f["need"]["n"], f["need"].get("frame"), f["need"].get("by")) for f in case["frames"] if f["need"]
               and f["need"].get("frame") not in (None, "me!"))) >= 2 and \
            len(set((f["need"]["n"], f["need"].get("frame")) for f in case["frames"] if f["need"]
                    and f["need"].get("frame") not in (None, "me!"))) == 1:
        ctx.hit("same_frame_different_marks")
    named = [(f["need"].get("frame"), f["need"].get("by")) for f in case["frames"] if f["need"] and f["need"].get("frame") not in (None, "me!")]
    kinds = set((f["need"]["n"], f["need"].get("frame"), f["need"].get("by")) for f in case["frames"]
                if f["need"] and f["need"].get("frame") not in (None, "me!"))
    if any((("updated",) + k in kinds) and (("changed",) + k in kinds) for k in set(named)):
        ctx.hit("both_kinds_on_one_frame_and_mark")
    ctx.case([text], nontrivial=stats["taken"] >= 1 and stats["refused"] >= 1,
             sample={"program": text, "expected_active_per_tick": exp[:n], "observed": obs[:n]} if stats["taken"] and stats["refused"] else None)
    for t in range(n):
        if obs[t] != exp[t]:
            f = [x for x in case["frames"] if x["name"] == (exp[t - 1] if t else exp[0])]
            kind = (f[0]["need"] or {}).get("n", "none") if f else "?"
            took = obs[t] != (obs[t - 1] if t else None)
            ctx.fail("marker-condition/%s/%s" % (kind, "taken-but-rule-says-no" if (t and obs[t] != obs[t - 1] and exp[t] == exp[t - 1])
                                                  else "outcome-differs"),
                     "tick %d: active frame of %s is %s, marker rules say %s" % (t, who, obs[t], exp[t]),
                     {"program": text, "tick": t, "framer": who, "observed": obs[:n], "expected": exp[:n], "plan": case["plan"],
                      "writer": case["writer"]})
            return
    ctx.check(True, "ok")


def worker(ctx, job):
    for c in job["cases"]:
        check_case(ctx, c)
    # update / change conditions as the conditions of a conditional auxiliary: the mark is reset by a start that is taken
    # (also when the aux completes in that very run) and left alone by a start that is refused (family and model shared
    # with the C08 / C10 checks)
    import random
    from vf.checks import c08
    for seed in job.get("gca", []):
        case = c08.gated_condaux_case(random.Random(seed))
        r = c08.gated_condaux_eval(case)
        if r[0] == "nobuild":
            ctx.inconclusive_case("conditional aux program did not build: %s" % (r[1],))
            continue
        if r[0] == "raised":
            ctx.fail("condaux/run-raised", "run raised %s" % r[1], {"program": case["text"]})
            continue
        ctx.event()
        ctx.hit("condaux_marker_histories")
        if case["oneshot"]:
            ctx.hit("oneshot_condaux_histories")
            ctx.hit("oneshot_condaux_starts", r[4])
        if r[2]:
            ctx.hit("condaux_refused_starts", r[2])
        ctx.case(case["text"], nontrivial=bool(r[2] or r[4] >= 2), sample=None)
        ctx.check(r[0] == "ok", "marker-condition/%s/conditional-aux-starts-differ" % case["kind"],
                  "conditional aux guarded by `%s`%s: %s" % (case["kind"], " completing at once" if case["oneshot"] else "", r[1]),
                  lambda: {"program": case["text"], "case": {k: v for k, v in case.items() if k != "text"}, "result": r[1]})


PLANS = [[], [(1, 5)], [(2, 5), (3, 5)], [(1, 1), (2, 0), (3, 1)], [(3, 7), (6, 7), (7, 8)], [(1, 2), (4, 2), (5, 3), (9, 3)],
         [(2, ("add", "x1", 1)), (5, ("add", "x1", 1)), (8, ("add", "x2", 0))]]


def run(ctx):
    opts = need_opts()
    cases = []
    for na in opts:
        for nb in opts:
            if nb is not None and nb.get("frame") == "B" and False:
                continue
            for plan in PLANS:
                for writer in ("front", "back"):
                    cases.append({"frames": [{"name": "A", "far": "B", "need": na}, {"name": "B", "far": "A", "need": nb}],
                                  "plan": plan, "writer": writer})
    ctx.extra["enumerated_cases"] = len(cases)
    if ctx.quick:
        cases = ctx.rng.sample(cases, 900)
    else:
        ctx.extra["two_frame_grid_exhaustive"] = True
    rng = ctx.rng
    for i in range(ctx.pick(600, 60000)):
        cases.append(random_case(rng, opts))
    for i in range(ctx.pick(200, 8000)):
        cases.append(random_case(rng, opts, twin=True))
    n = 16
    gca = [ctx.rng.randrange(1 << 30) for _ in range(ctx.pick(240, 8000))]
    ctx.floor("oneshot_condaux_starts", 60)
    ctx.floor("both_kinds_on_one_frame_and_mark", 40)
    ctx.floor("condaux_refused_starts", 60)
    ctx.shard([{"cases": cases[i::n], "gca": gca[i::n]} for i in range(n)], timeout=ctx.pick(300, 1500))
    ctx.floor("twin_clone_histories", 50)
    for k in ("taken", "refused", "same_tick_entry", "same_tick_transit", "before_first_mark", "need_updated", "need_changed",
              "with_in_frame", "with_by", "guard_refused_marker_transition", "same_frame_different_marks", "exit_writes", "taken_on_added_field_only"):
        ctx.floor(k, 20)


def random_case(rng, opts, gated=None, exitwrites=None, twin=False):
    """one random history; gated=True forces entry guards on the later frames and marker needs on every frame"""
    nfr = rng.choice([2, 3])
    names = ["A", "B", "C"][:nfr]
    frames = []
    for nm in names:
        need = rng.choice(opts[1:] if gated else opts)
        if need:
            need = dict(need)
            if need.get("frame") in ("A", "B") and rng.random() < 0.3 and nfr == 3:
                need["frame"] = "C"
        far = rng.choice(["next", "next", "me"] + names)
        if far == "next":
            far = names[(names.index(nm) + 1) % nfr]
        frames.append({"name": nm, "far": far, "need": need})
    if rng.random() < 0.25:
        # two conditions of the same kind on the same share that name the same frame but use different marks: each mark
        # must be set on entry to that frame
        kind = rng.choice(["updated", "changed"])
        named = rng.choice(names)
        bys = rng.sample([None, "k", "j"], 2)
        for f, by in zip(rng.sample(frames, 2), bys):
            f["need"] = {"n": kind, "path": ".w", "frame": named, "by": by, "neg": False}
    plan = sorted(set((rng.randint(1, TICKS - 2), rng.choice([0, 1, 1, 2])) for _ in range(rng.randint(0, 6))))
    seen = set()
    plan = [p for p in plan if not (p[0] in seen or seen.add(p[0]))]
    if rng.random() < 0.35:
        # some writes set a field the share does not have yet (added since the snapshot), or set it again
        plan = [(t, ("add", rng.choice(["x1", "x1", "x2"]), rng.choice([0, 1]))) if rng.random() < 0.5 else (t, v) for t, v in plan]
    gates = {}
    if gated or rng.random() < 0.4:
        for nm in names[1:]:
            if gated or rng.random() < 0.6:
                gates[nm] = rng.randint(2, TICKS - 3)
    exitw = {}
    if exitwrites or rng.random() < 0.3:
        for nm in names:
            if exitwrites or rng.random() < 0.5:
                exitw[nm] = rng.choice([0, 1, 2, 3])
    r2 = random.Random(repr((frames, plan)))
    if r2.random() < 0.2:
        # an `is updated` and an `is changed` condition on the share that name the same frame and the same mark: the frame's
        # entry sets both marks (the cases above stay what they were: a generator of its own)
        named = r2.choice(names)
        by = r2.choice([None, "k"])
        two = r2.sample(frames, 2)
        for f, kind in zip(two, r2.sample(["updated", "changed"], 2)):
            f["need"] = {"n": kind, "path": ".w", "frame": named, "by": by, "neg": False}
    case = {"frames": frames, "plan": plan, "writer": rng.choice(["front", "back"]), "gates": gates, "exitw": exitw}
    if twin:
        case["exitw"] = {}          # the clones' own writes would be updates for each other
        case["twin"] = rng.choice(["mine", "w", "same"])
    return case
