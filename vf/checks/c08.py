"""C08 entry guards are never bypassed and refused transitions have no effect (engine A)."""
import random

from vf.flo import gen, prog as P

LEVEL = "exploration"
RULE = ("seeded random programs whose frames carry `let` guards on shares that a driver flips at generated ticks, nested guarded "
        "outlines, plain auxiliaries with guarded first frames (shared originals in ancestor/descendant/sibling frames), guarded "
        "first frames of active, slave (fiat-started) and auxiliary framers; a benter recorder first in every frame logs each "
        "attempt with the store snapshot; the same programs with auxiliaries turned into clones (gen.cloneify) and a feature set with guarded, half negated, frames inside such clones; conditional auxiliaries guarded by update / change conditions with an entry guard that opens later, or completing at once; distinct = distinct program text; non-trivial = at least 2 refused and 2 admitted attempts")
RULE = __import__("vf.core", fromlist=["rule_add"]).rule_add(RULE, 'also `ready` then a write to the condition share then `start` (by fiat on a slave, by bid on an inactive framer): the entry guards are judged with the shares as they are at the start')
META = {"engine": "A floscript", "technique": "trace monitor: guard evaluated on the attempt snapshot; no-effect window after refusal; "
                                               "differential check against the reference interpreter",
        "level_text": "Each enter event of a guarded frame (or of a frame whose aux has a guarded first frame) is matched with the latest "
                      "attempt snapshot on which the written conditions are re-evaluated; after every refused attempt no exit/rexit/renter/"
                      "enter action of that framer may occur before its next attempt, and clocks / active frame stay put.",
        "level_note": "Ownership refusals surface through the bracket automaton (an owned aux entered again) and the reference comparison."}

FEATS = [
    dict(p_let=0.6, nframes=(3, 7), ngo=(1, 2), p_uncond_go=0.15, nplan=(3, 8), ticks=(10, 20), benter_all=True, p_stop_bid_mid=0.2),
    dict(p_let=0.5, nframes=(3, 6), ngo=(1, 2), p_aux=0.5, naux=(1, 3), p_shared_aux=0.8, p_aux_inherit=0.3, nplan=(3, 8), ticks=(10, 20), benter_all=True),
    dict(p_let=0.6, nframes=(2, 5), ngo=(1, 2), nslaves=(1, 2), p_fiat=0.6, nplan=(3, 8), ticks=(10, 18), benter_all=True,
         p_inactive=0.2, p_bids=0.2),
    # an original aux named by a frame and by frames below it, many unguarded transitions between branches: the aux-ownership
    # rule decides most attempts (the owner may be a common frame that stays entered across the transition)
    dict(p_let=0.2, nframes=(4, 7), ngo=(2, 3), p_uncond_go=0.4, p_aux=0.7, naux=(1, 2), p_shared_aux=0.9, p_aux_inherit=0.6,
         nplan=(3, 8), ticks=(10, 20), benter_all=True),
]

# guarded frames inside auxiliary framers that are mostly run as clones (gen.cloneify), half of the guards negated
CLONE_FEAT = dict(p_let=0.9, p_aux_let=1.0, p_neg=0.5, nframes=(2, 5), ngo=(1, 2), p_uncond_go=0.3, p_aux=0.8, naux=(1, 3), p_shared_aux=0.0,
                  nplan=(3, 8), ticks=(10, 20), benter_all=True)


def gated_condaux_case(rng):
    """A conditional auxiliary whose condition is an update / change condition and whose first frame has an entry guard that
    opens at a planned tick: while the guard refuses the start, the attempt must leave the mark alone (no transit action of a
    refused attempt runs), so the start happens as soon as the guard opens -- without a new write.  Some of the auxes
    complete in the run that starts them (`done me`): the taken start has reset the mark, so the next start needs a new
    write."""
    T = 14
    kind = rng.choice(["updated", "changed"])
    writer = rng.choice(["front", "back"])
    gate = rng.randint(3, 10)
    plan = sorted(set(rng.randint(1, T - 3) for _ in range(rng.randint(1, 3))))
    vals = [rng.choice([1, 2, 1, 0]) for _ in plan]
    infr = rng.choice(["", " in frame", " in frame A"])
    r2 = random.Random(repr((kind, writer, gate, plan, vals, infr)))      # (the cases above stay what they were)
    oneshot = r2.random() < 0.4
    if oneshot:
        if r2.random() < 0.6:
            gate = 0
        more = sorted(set(plan) | set(r2.randint(1, T - 3) for _ in range(r2.randint(0, 2))))
        vals = [vals[plan.index(t)] if t in plan else r2.choice([1, 2, 3, 0]) for t in more]
        plan = more
    L = ["house h", "", "  init .w with value 0", "  init .g with value 0", "",
         "  framer gk be active in front", "    frame g0", "      recur", "      inc .g with 1", "",
         "  framer drv be active in %s" % writer]
    prev = 0
    for i, t in enumerate(plan):
        L.append("    frame d%d" % i)
        if i > 0:
            L.append("      put %d into .w" % vals[i - 1])
        L.append("      go next if recurred >= %d" % (t - prev))
        prev = t
    L += ["    frame dl", "      put %d into .w" % vals[-1], "      go next if recurred >= %d" % max(1, T - prev), "    frame dfin", "      bid stop all", ""]
    L += ["  framer m be active", "    frame A", '      do vf rec with tag "m.A.enter" at enter',
          "      aux ax if .w is %s%s" % (kind, infr), "",
          "  framer ax be aux", "    frame x0", "      let me if .g >= %d" % gate, '      do vf rec with tag "ax.x0.enter" at enter']
    if oneshot:
        L.append("      done me")
    L.append("")
    return {"text": "\n".join(L) + "\n", "kind": kind, "writer": writer, "gate": gate, "plan": list(zip(plan, vals)), "T": T,
            "inframe": bool(infr), "oneshot": oneshot}


def gated_condaux_eval(case):
    from vf.flo import runner
    res = runner.run_text(case["text"], maxticks=case["T"] + 6)
    if not res.built:
        return ("nobuild", res.build_msgs[-1:])
    if res.exc is not None:
        return ("raised", repr(res.exc))
    got = [e["tick"] for e in res.trace if e["tag"] == "ax.x0.enter"]
    writes = dict(case["plan"])
    value, upd, refused = 0, None, 0
    # the mark: with `in frame` it is set when A is entered (tick 0); without it there is no mark before the first taken
    # start (any update counts / `changed` is true before the first snapshot); a taken start resets it (transit action)
    mark = {"tick": 0, "how": "entry", "snap": 0} if case["inframe"] else None
    exp, running, after_refusal = [], False, False
    for t in range(case["T"] + 1):
        if case["writer"] == "front" and t in writes:
            value, upd = writes[t], t
        if t >= 1 and not running:
            if case["kind"] == "updated":
                holds = upd is not None and (mark is None or upd > mark["tick"] or (upd == mark["tick"] and mark["how"] == "entry"))
            else:
                holds = mark is None or value != mark["snap"]
            if holds:
                if t + 1 >= case["gate"]:
                    exp.append(t)
                    if refused:
                        after_refusal = True
                    mark = {"tick": t, "how": "transit", "snap": value}
                    running = not case["oneshot"]
                else:
                    refused += 1
        if case["writer"] == "back" and t in writes:
            value, upd = writes[t], t
    return ("ok" if got == exp else "differs", {"observed_start_ticks": got, "expected_start_ticks": exp}, refused,
            exp[0] if after_refusal else None, len(exp))


def worker(ctx, job):
    from vf.flo import runner, monitors, refint, compare
    # transit actions of a refused transition: marker-guarded transitions into entry-guarded frames (the marker rule
    # model of the C20 check decides; a transit action run by a refused attempt resets the mark and shows as a later
    # transition that is not taken / taken wrongly)
    from vf.checks import c20
    for case in job.get("gated", []):
        nf = len(ctx.fails)
        c20.check_case(ctx, case)
        for f in ctx.fails[nf:]:
            f["key"] = "refused-transition/" + f["key"]
        for k in list(ctx.fail_counts):
            if k.startswith("marker-condition/"):
                ctx.fail_counts["refused-transition/" + k] = ctx.fail_counts.get("refused-transition/" + k, 0) + ctx.fail_counts.pop(k)
    # a frame's guard is evaluated at the entry attempt itself: a start that follows a `ready` (which evaluated the guard
    # earlier, when the shares were different) is judged on the shares as they are at the start (family shared with C04)
    if job.get("rfs"):
        from vf.checks import c04
        for seed in job["rfs"]:
            c04.ready_flip_start_check(ctx, random.Random(seed))
    for seed in job.get("gca", []):
        case = gated_condaux_case(random.Random(seed))
        r = gated_condaux_eval(case)
        if r[0] == "nobuild":
            ctx.inconclusive_case("gated conditional aux program did not build: %s" % (r[1],))
            continue
        if r[0] == "raised":
            ctx.fail("gated-condaux/run-raised", "run raised %s" % r[1], {"program": case["text"]})
            continue
        ctx.event()
        ctx.hit("gated_condaux_histories")
        ctx.hit("gated_condaux_refused_attempts", r[2])
        if r[2] and r[3] is not None:
            ctx.hit("gated_condaux_started_after_refusals")
        if case["oneshot"]:
            ctx.hit("oneshot_condaux_histories")
            ctx.hit("oneshot_condaux_starts", r[4])
        ctx.case(case["text"], nontrivial=bool(r[2]), sample={"program": case["text"], "start": r[1]} if r[2] and seed % 16 == 0 else None)
        ctx.check(r[0] == "ok", "gated-condaux/refused-start-changed-a-later-start",
                  "conditional aux guarded by `%s`, entry guard opening at tick %d: %s" % (case["kind"], case["gate"] - 1, r[1]),
                  lambda: {"program": case["text"], "case": {k: v for k, v in case.items() if k != "text"}, "result": r[1],
                           "refused_attempts_before": r[2]})
    variants = []
    for seed, fi in job["items"]:
        rng = random.Random(seed)
        prog = gen.gen_program(rng, gen.feat(**CLONE_FEAT) if fi == "clone" else gen.pickfeat(FEATS, fi))
        variants.append((prog, None))
        # the same program with auxiliary framers turned into clones of moot framers (their guards are copies made by
        # Act.clone): monitored under the names of the framers they stand for
        p2, alias = gen.cloneify(prog, random.Random(seed ^ 0x5EED))
        if alias:
            variants.append((prog, (p2, alias)))
    for prog, cloned in variants:
        text = P.render(cloned[0] if cloned else prog)
        cap = prog["ticks"] + 12
        res = runner.run_text(text, maxticks=cap, post=True, watch=gen.WATCH, alias=cloned[1] if cloned else None)
        if cloned:
            ctx.hit("cloned_aux_variants")
        if not res.built:
            ctx.inconclusive_case("generated program did not build: %s" % (res.build_msgs[-1:],))
            continue
        if res.exc is not None:
            ctx.fail("run-raised/%s" % type(res.exc).__name__, "run raised %r" % (res.exc,), {"program": text})
            continue
        info = monitors.Info(prog)
        nf = len(ctx.fails)
        a0, r0 = ctx.hits.get("attempts_admitted", 0), ctx.hits.get("attempts_refused", 0)
        monitors.guard_monitor(ctx, info, res)
        monitors.bracket_monitor(ctx, info, res)
        try:
            ref = refint.Ref(prog, maxticks=cap).run()
            d = compare.first_divergence(res, ref, gen.WATCH)
            for fl in ("aux_ownership_refused", "aux_guard_refused", "start_failed", "transition_refused"):
                if fl in ref.flags:
                    ctx.hit("sem_" + fl)
            ctx.check(d is None, "refint-divergence/%s" % (d or {}).get("kind"),
                      "real run and reference interpreter differ: %s" % ({k: v for k, v in (d or {}).items() if not k.startswith("context")},),
                      lambda: {"divergence": d})
        except refint.Unsupported:
            ctx.hit("excluded_corner")
        for f in ctx.fails[nf:]:
            if isinstance(f.get("witness"), dict):
                f["witness"]["program"] = text
        a, r = ctx.hits.get("attempts_admitted", 0) - a0, ctx.hits.get("attempts_refused", 0) - r0
        ctx.case(text, nontrivial=(a >= 2 and r >= 2),
                 sample={"program": text, "admitted": a, "refused": r} if a >= 2 and r >= 2 and len(text) < 2600 else None)


def run(ctx):
    n = ctx.pick(640, 24000)
    items = [(ctx.rng.randrange(1 << 30), i % gen.nfeats(FEATS, ctx)) for i in range(n)]
    from vf.checks import c20
    opts = c20.need_opts()
    gated = [c20.random_case(ctx.rng, opts, gated=True) for _ in range(ctx.pick(320, 6400))]
    items += [(ctx.rng.randrange(1 << 30), "clone") for _ in range(ctx.pick(320, 6000))]
    gca = [ctx.rng.randrange(1 << 30) for _ in range(ctx.pick(160, 6000))]
    rfs = [ctx.rng.randrange(1 << 30) for _ in range(ctx.pick(160, 4000))]
    ctx.shard([{"items": items[i::16], "gated": gated[i::16], "gca": gca[i::16], "rfs": rfs[i::16]} for i in range(16)],
              timeout=ctx.pick(300, 1500))
    ctx.floor("starts_with_false_condition_after_successful_ready", 30)
    ctx.floor("gated_condaux_started_after_refusals", 30)
    ctx.floor("cloned_aux_variants", 40)
    ctx.floor("negated_guard_attempts_in_clones", 10)
    ctx.floor("guard_refused_marker_transition", 30)
    ctx.floor("attempts_refused", 50)
    ctx.floor("attempts_admitted", 50)
    ctx.floor("guarded_enters", 50)
    ctx.floor("sem_aux_ownership_refused", 5)
    ctx.floor("sem_start_failed", 5)
    ctx.floor("no_transition_runs", 200)
