"""C08 entry guards are never bypassed and refused transitions have no effect (engine A)."""
import random

from vf.flo import gen, prog as P

LEVEL = "exploration"
RULE = ("seeded random programs whose frames carry `let` guards on shares that a driver flips at generated ticks, nested guarded "
        "outlines, plain auxiliaries with guarded first frames (shared originals in ancestor/descendant/sibling frames), guarded "
        "first frames of active, slave (fiat-started) and auxiliary framers; a benter recorder first in every frame logs each "
        "attempt with the store snapshot; distinct = distinct program text; non-trivial = at least 2 refused and 2 admitted attempts")
META = {"engine": "A floscript", "technique": "trace monitor: guard evaluated on the attempt snapshot; no-effect window after refusal; "
                                               "differential check against the reference interpreter",
        "level_text": "Each enter event of a guarded frame (or of a frame whose aux has a guarded first frame) is matched with the latest "
                      "attempt snapshot on which the written conditions are re-evaluated; after every refused attempt no exit/rexit/renter/"
                      "enter action of that framer may occur before its next attempt, and clocks / active frame stay put.",
        "level_note": "Ownership refusals surface through the bracket automaton (an owned aux entered again) and the reference comparison."}

FEATS = [
    dict(p_let=0.6, nframes=(3, 7), ngo=(1, 2), p_uncond_go=0.15, nplan=(3, 8), ticks=(10, 20), benter_all=True, p_stop_bid_mid=0.2),
    dict(p_let=0.5, nframes=(3, 6), ngo=(1, 2), p_aux=0.5, naux=(1, 3), p_shared_aux=0.8, p_aux_inherit=0.3, nplan=(3, 8), ticks=(10, 20), benter_all=True),
    dict(p_let=0.6, nframes=(2, 5), ngo=(1, 2), nslaves=(1, 2), p_fiat=0.6, nplan=(3, 8), ticks=(10, 18), benter_all=True,
         p_inactive=0.2, p_bids=0.2),
    # an original aux named by a frame and by frames below it, many unguarded transitions between branches: the aux-ownership
    # rule decides most attempts (the owner may be a common frame that stays entered across the transition)
    dict(p_let=0.2, nframes=(4, 7), ngo=(2, 3), p_uncond_go=0.4, p_aux=0.7, naux=(1, 2), p_shared_aux=0.9, p_aux_inherit=0.6,
         nplan=(3, 8), ticks=(10, 20), benter_all=True),
]


def worker(ctx, job):
    from vf.flo import runner, monitors, refint, compare
    # transit actions of a refused transition: marker-guarded transitions into entry-guarded frames (the marker rule
    # model of the C20 check decides; a transit action run by a refused attempt resets the mark and shows as a later
    # transition that is not taken / taken wrongly)
    from vf.checks import c20
    for case in job.get("gated", []):
        nf = len(ctx.fails)
        c20.check_case(ctx, case)
        for f in ctx.fails[nf:]:
            f["key"] = "refused-transition/" + f["key"]
        for k in list(ctx.fail_counts):
            if k.startswith("marker-condition/"):
                ctx.fail_counts["refused-transition/" + k] = ctx.fail_counts.get("refused-transition/" + k, 0) + ctx.fail_counts.pop(k)
    for seed, fi in job["items"]:
        rng = random.Random(seed)
        prog = gen.gen_program(rng, gen.pickfeat(FEATS, fi))
        text = P.render(prog)
        cap = prog["ticks"] + 12
        res = runner.run_text(text, maxticks=cap, post=True, watch=gen.WATCH)
        if not res.built:
            ctx.inconclusive_case("generated program did not build: %s" % (res.build_msgs[-1:],))
            continue
        if res.exc is not None:
            ctx.fail("run-raised/%s" % type(res.exc).__name__, "run raised %r" % (res.exc,), {"program": text})
            continue
        info = monitors.Info(prog)
        nf = len(ctx.fails)
        a0, r0 = ctx.hits.get("attempts_admitted", 0), ctx.hits.get("attempts_refused", 0)
        monitors.guard_monitor(ctx, info, res)
        monitors.bracket_monitor(ctx, info, res)
        try:
            ref = refint.Ref(prog, maxticks=cap).run()
            d = compare.first_divergence(res, ref, gen.WATCH)
            for fl in ("aux_ownership_refused", "aux_guard_refused", "start_failed", "transition_refused"):
                if fl in ref.flags:
                    ctx.hit("sem_" + fl)
            ctx.check(d is None, "refint-divergence/%s" % (d or {}).get("kind"),
                      "real run and reference interpreter differ: %s" % ({k: v for k, v in (d or {}).items() if not k.startswith("context")},),
                      lambda: {"divergence": d})
        except refint.Unsupported:
            ctx.hit("excluded_corner")
        for f in ctx.fails[nf:]:
            if isinstance(f.get("witness"), dict):
                f["witness"]["program"] = text
        a, r = ctx.hits.get("attempts_admitted", 0) - a0, ctx.hits.get("attempts_refused", 0) - r0
        ctx.case(text, nontrivial=(a >= 2 and r >= 2),
                 sample={"program": text, "admitted": a, "refused": r} if a >= 2 and r >= 2 and len(text) < 2600 else None)


def run(ctx):
    n = ctx.pick(640, 24000)
    items = [(ctx.rng.randrange(1 << 30), i % gen.nfeats(FEATS, ctx)) for i in range(n)]
    from vf.checks import c20
    opts = c20.need_opts()
    gated = [c20.random_case(ctx.rng, opts, gated=True) for _ in range(ctx.pick(320, 6400))]
    ctx.shard([{"items": items[i::16], "gated": gated[i::16]} for i in range(16)], timeout=ctx.pick(300, 1500))
    ctx.floor("guard_refused_marker_transition", 30)
    ctx.floor("attempts_refused", 50)
    ctx.floor("attempts_admitted", 50)
    ctx.floor("guarded_enters", 50)
    ctx.floor("sem_aux_ownership_refused", 5)
    ctx.floor("sem_start_failed", 5)
    ctx.floor("no_transition_runs", 200)
