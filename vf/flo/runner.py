"""Run a FloScript text on the real ioflo and observe it (DESIGN 2.A).

Observation points, all attached from outside:
  * recorder behaviours (vf.flo.recorder) -> action events
  * store.changeStamp wrapped on the *instance* -> tick boundary snapshots
  * tasker.runner replaced by a proxy with .send -> control/status per run
"""
import os
import tempfile

from vf import core
from vf.flo import recorder

from ioflo.aid.consoling import getConsole
from ioflo.base import skedding, framing, tasking
from ioflo.base.globaling import (STOPPED, STARTED, RUNNING, ABORTED, READIED,
                                  ACTIVE, INACTIVE, AUX, SLAVE, MOOT)

console = getConsole()
console.reinit(verbosity=0)

STATUS = {STOPPED: "stopped", STARTED: "started", RUNNING: "running",
          ABORTED: "aborted", READIED: "readied"}
CONTROL = {0: "stop", 1: "start", 2: "run", 3: "abort", 4: "ready"}
SCHED = {ACTIVE: "active", INACTIVE: "inactive", AUX: "aux", SLAVE: "slave", MOOT: "moot"}


class TickCap(KeyboardInterrupt):
    """KeyboardInterrupt is the documented way to end Skedder.run."""


class RunnerProxy(object):
    """Stands in for tasker.runner; logs every send (who, control, status)."""

    def __init__(self, tasker, log, state, house=None):
        self.house = house
        self.tasker = tasker
        self.gen = tasker.runner
        self.log = log
        self.state = state

    def send(self, control):
        st = self.state
        st["pos"] += 1
        ev = {"k": "send", "tick": st["tick"], "pos": st["pos"], "tasker": self.tasker.name,
              "control": CONTROL.get(control, control), "caller": "sweep" if st.get("sweep") else "run",
              "stamp": self.tasker.store.stamp, "depth": st["depth"], "seq": len(recorder.TRACE), "house": self.house}
        self.log.append(ev)
        if st.get("presnap"):
            ev["pre"] = st["presnap"]()      # watched shares as they are when the control arrives
        st["depth"] += 1
        try:
            status = self.gen.send(control)
        except BaseException as e:
            ev["raised"] = type(e).__name__
            raise
        finally:
            st["depth"] -= 1
        ev["status"] = STATUS.get(status, status)
        ev["seq_end"] = len(recorder.TRACE)
        if st.get("post"):
            if hasattr(self.tasker, "actives"):
                ev["selfpost"] = framer_snapshot(self.tasker)
            if st["depth"] == 0:
                ev["post"] = st["post"]()
        return status

    def close(self):
        return self.gen.close()

    def __getattr__(self, name):
        return getattr(self.gen, name)


class Result(object):
    pass


def framer_snapshot(fr):
    return {"status": STATUS.get(fr.status, fr.status),
            "desire": CONTROL.get(fr.desire, fr.desire),
            "done": fr.done,
            "actives": [f.name for f in fr.actives],
            "active": fr.active.name if fr.active else None,
            "human": fr.human,
            "humanShr": fr.humanShr.value,
            "activeShr": fr.activeShr.value,
            "elapsed": fr.elapsedShr.value,
            "recurred": fr.recurredShr.value,
            "main": ([fr.main.framer.name if hasattr(fr.main.framer, "name") else fr.main.framer, fr.main.name]
                     if getattr(fr, "main", None) is not None else None),
            "sched": SCHED.get(fr.schedule, fr.schedule),
            "period": fr.period}


def all_framers(house):
    """every framer known to the house incl. clones created at resolve/run time"""
    seen = []
    for fr in list(house.framers):
        if fr not in seen:
            seen.append(fr)
    for t in list(framing.Framer.Names.values()) if house is None else []:
        pass
    return seen


def run_text(text, period=0.125, maxticks=64, watch=(), boom=None, build_only=False,
             real=False, tick_hook=None, proxies=True, keep=None, behaviors=None, post=False, stamp=0.0, rerun=False, alias=None):
    """Build and run `text`.  Returns a Result with
       .built, .build_error, .trace (recorder events), .sends, .ticks (snapshots
       at each changeStamp call), .exc (exception leaving run()), .capped, .skedder
       alias: {clone framer name: original name} from gen.cloneify -- clones are reported under the name of the framer
       they are a clone of and the moot originals themselves are left out of the snapshots"""
    res = Result()
    res.trace, res.sends, res.ticks = [], [], []
    res.exc = None
    res.capped = False
    res.build_error = None
    d = core.scratch_dir("flo")
    path = os.path.join(d, "p.flo")
    with open(path, "w") as f:
        f.write(text)
    sk = skedding.Skedder(name="vf", period=period, stamp=stamp, real=real, filepath=path,
                          behaviors=list(behaviors or ["vf.flo.recorder"]))
    res.skedder = sk
    res.build_msgs = []

    class BuildSpy(object):
        def __init__(self, real):
            self._real = real

        def terse(self, msg):
            res.build_msgs.append(msg.strip()[:300])
            return self._real.terse(msg)

        def __getattr__(self, name):
            return getattr(self._real, name)
    from ioflo.base import building as _building
    real_bc = _building.console
    _building.console = BuildSpy(real_bc)
    try:
        res.built = bool(sk.build())
    except BaseException as e:
        if isinstance(e, (core.Watchdog,)):
            raise
        res.built = False
        res.build_error = e
    finally:
        _building.console = real_bc
        try:
            os.unlink(path)
            os.rmdir(d)
        except OSError:
            pass
    if not res.built or build_only:
        return res

    state = {"tick": 0, "pos": 0, "depth": 0, "sweep": False}
    house0 = sk.houses[0]
    alias = dict(alias or {})
    res.alias = alias

    def fmap(house):
        return {alias.get(fr.name, fr.name): framer_snapshot(fr) for fr in house.framers
                if not (alias and fr.schedule == MOOT)}
    recorder.reset(watch=watch, store=house0.store, boom=boom,
                   framers=[f for f in house0.framers if f.schedule in (AUX, SLAVE)] if post else None, alias=alias)
    res.trace = recorder.TRACE

    state["post"] = (lambda: fmap(house0)) if post else None
    state["presnap"] = (lambda: recorder.snapshot(house0.store)) if (watch and post) else None

    def snap(house):
        return {"tick": state["tick"], "stamp": house.store.stamp, "seq": len(recorder.TRACE),
                "framers": fmap(house),
                "shares": recorder.snapshot(house.store) if watch else None}

    for house in sk.houses:
        orig = house.store.changeStamp

        def wrapper(stamp, _orig=orig, _house=house):
            # called once before the first tick and at the end of every tick
            first = not res.ticks
            if _house is house0 and not first:
                res.ticks.append(snap(_house))       # end-of-tick snapshot (before stamp advances)
            r = _orig(stamp)
            if _house is house0:
                if first:
                    res.ticks.append({"tick": -1, "stamp": stamp, "seq": 0, "framers": {}, "shares": None})
                else:
                    state["tick"] += 1
                    state["pos"] = 0
                    recorder.STATE["tick"] = state["tick"]
                    if tick_hook:
                        tick_hook(state["tick"], sk)
                    if state["tick"] >= maxticks:
                        res.capped = True
                        raise TickCap()
            return r
        house.store.changeStamp = wrapper

    if proxies:
        for house in sk.houses:
            for t in house.taskers:
                if t.runner is not None and not isinstance(t.runner, RunnerProxy):
                    t.runner = RunnerProxy(t, res.sends, state, house=house.name)

    # mark the final abort sweep: Skedder.run's finally announces it on the console
    # before it sends ABORT to what is left in ready; the exit reason is announced too.
    res.exit_reason = None
    res.presweep = None

    class ConsoleSpy(object):
        def __init__(self, real):
            self._real = real

        def terse(self, msg):
            if msg.startswith("Aborting all ready Taskers"):
                state["sweep"] = True
                res.presweep = snap(house0)
                res.presweep["ready"] = [t.name for t, r, p in sk.ready]
            elif msg.startswith("No ready taskers"):
                res.exit_reason = "no-ready"
            elif msg.startswith("No running or started"):
                res.exit_reason = "no-more"
            elif msg.startswith("KeyboardInterrupt forcing"):
                res.exit_reason = "keyboard"
            elif msg.startswith("Surprise exception"):
                res.exit_reason = "exception"
            return self._real.terse(msg)

        def __getattr__(self, name):
            return getattr(self._real, name)

    real_console = skedding.console
    skedding.console = ConsoleSpy(real_console)
    try:
        sk.run()
        if rerun:
            # the same skedder is run a second time after its taskers were restarted with remake(), as Skedder.run's
            # doc string asks; `res` then describes the second run, res.first keeps the counts of the first
            res.first = {"sends": list(res.sends), "nticks": state["tick"], "presweep": res.presweep, "capped": res.capped}
            if not res.capped:
                del res.sends[:]
                del res.ticks[:]
                recorder.reset(watch=watch, store=house0.store, boom=None,
                               framers=[f for f in house0.framers if f.schedule in (AUX, SLAVE)] if post else None, alias=alias)
                state.update(tick=0, pos=0, depth=0, sweep=False)
                res.presweep, res.exit_reason = None, None
                for house in sk.houses:
                    for t in house.taskers:
                        t.remake()
                        if proxies:
                            t.runner = RunnerProxy(t, res.sends, state, house=house.name)
                res.reran = True
                sk.run()
    except BaseException as e:
        if isinstance(e, core.Watchdog):
            raise
        res.exc = e
    finally:
        skedding.console = real_console
    res.final = snap(house0)
    res.nticks = state["tick"]
    return res
