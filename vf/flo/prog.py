"""FloScript programs as plain JSON-able data, a renderer, and *static*
structure helpers computed from the AST alone (never from ioflo objects).

program : {"period": "0.125", "houses": [house]}
house   : {"name", "inits": [[path, {field: value}]], "framers": [framer]}
framer  : {"name", "sched": active|inactive|aux|slave|moot, "period": str|None,
           "order": front|mid|back|None, "first": name|None, "via": inode|None, "frames": [frame]}
frame   : {"name", "over": name|None, "under": name|None, "next": name|None, "via": None, "stmts": [stmt]}
stmt    : {"v": verb, ..., "ctx": None|context}     (see render_stmt)
need    : {"n": kind, ..., "neg": bool}              (see render_need)
"""
from fractions import Fraction

CONTEXTS = ["native", "benter", "enter", "renter", "precur", "recur", "exit", "rexit"]
NATIVE_CTX = {"rec": "recur", "put": "enter", "inc": "enter", "copy": "enter", "set": "enter",
              "print": "enter", "bid": "enter", "done": "enter", "rear": "enter", "raze": "exit",
              "ready": "benter", "start": "enter", "run": "recur", "stop": "exit", "abort": "enter"}


# ------------------------------------------------------------------ constructors
def program(houses, period="0.125"):
    return {"period": str(period), "houses": houses}


def house(name, framers, inits=()):
    return {"name": name, "inits": [list(i) for i in inits], "framers": framers}


def framer(name, frames, sched="active", period=None, order=None, first=None, via=None):
    return {"name": name, "sched": sched, "period": None if period is None else str(period),
            "order": order, "first": first, "via": via, "frames": frames}


def frame(name, stmts=(), over=None, under=None, next=None, via=None):
    return {"name": name, "over": over, "under": under, "next": next, "via": via, "stmts": list(stmts)}


def rec(tag, ctx=None):
    return {"v": "rec", "tag": tag, "ctx": ctx}


def go(far, needs=()):
    return {"v": "go", "far": far, "needs": list(needs)}


def cmp(state, op, goal, tol=None, neg=False, field=None, goalfield=None):
    """goal: python value (direct) or {"path": p} (indirect)"""
    return {"n": "cmp", "state": state, "op": op, "goal": goal, "tol": tol, "neg": neg,
            "field": field, "goalfield": goalfield}


# ------------------------------------------------------------------ rendering
def lit(v):
    if isinstance(v, dict) and "raw" in v:
        return v["raw"]
    if v is None:
        return "none"
    if v is True:
        return "true"
    if v is False:
        return "false"
    if isinstance(v, str):
        return '"%s"' % v
    if isinstance(v, Fraction):
        return repr(float(v))
    return repr(v)


def render_data(data):
    """data: {field: value}; a single 'value' field is written bare"""
    if list(data.keys()) == ["value"]:
        return lit(data["value"])
    return " ".join("%s %s" % (k, lit(v)) for k, v in data.items())


def render_fields_path(path, fields=None):
    if fields:
        return "%s in %s" % (" ".join(fields), path)
    return path


def render_need(n):
    neg = "not " if n.get("neg") else ""
    k = n["n"]
    if k == "cmp":
        st = n["state"]
        if n.get("field"):
            st = "%s in %s" % (n["field"], st)
        g = n["goal"]
        if isinstance(g, dict) and "path" in g:
            gs = g["path"]
            if n.get("goalfield"):
                gs = "%s in %s" % (n["goalfield"], gs)
        else:
            gs = lit(g)
        s = "%s %s %s" % (st, n["op"], gs)
        if n.get("tol") is not None:
            s += " +- %s" % lit(n["tol"])
        return neg + s
    if k == "bool":
        st = n["state"]
        if n.get("field"):
            st = "%s in %s" % (n["field"], st)
        return neg + st
    if k == "done":
        return neg + "%s is done" % n["who"]
    if k == "auxdone":
        s = n["which"] if n["which"] in ("any", "all") else "aux %s" % n["which"]
        if n.get("frame"):
            s += " in frame" if n["frame"] == "me!" else " in frame %s" % n["frame"]
        return neg + s + " is done"
    if k == "status":
        return neg + "%s is %s" % (n["who"], n["status"])
    if k in ("updated", "changed"):
        s = "%s is %s" % (n["path"], k)
        if n.get("frame"):
            s += " in frame" if n["frame"] == "me!" else " in frame %s" % n["frame"]
        if n.get("by"):
            s += " by %s" % n["by"]
        return neg + s
    raise ValueError(k)


def render_needs(needs):
    return " and ".join(render_need(n) for n in needs)


def render_stmt(s):
    v = s["v"]
    if v == "rec":
        out = 'do vf rec with tag "%s"' % s["tag"]
        if s.get("ctx"):
            out += " at %s" % s["ctx"]
        return out
    if v == "go":
        out = "go %s" % s["far"]
        if s.get("needs"):
            out += " if " + render_needs(s["needs"])
        return out
    if v == "timeout":
        return "timeout %s" % lit(s["t"])
    if v == "repeat":
        return "repeat %s" % lit(s["n"])
    if v == "let":
        return "let %sif %s" % ("me " if s.get("me") else "", render_needs(s["needs"]))
    if v == "aux":
        out = "aux %s" % s["aux"]
        if s.get("as"):
            out += " as %s" % s["as"]
        if s.get("via"):
            out += " via %s" % s["via"]
        if s.get("needs"):
            out += " if " + render_needs(s["needs"])
        return out
    if v == "put":
        return "put %s into %s" % (render_data(s["data"]), render_fields_path(s["dst"], s.get("fields")))
    if v == "set":
        if "src" in s:
            return "set %s from %s" % (render_fields_path(s["dst"], s.get("fields")),
                                       render_fields_path(s["src"], s.get("srcfields")))
        return "set %s with %s" % (render_fields_path(s["dst"], s.get("fields")), render_data(s["data"]))
    if v == "inc":
        if "src" in s:
            return "inc %s from %s" % (render_fields_path(s["dst"], s.get("fields")),
                                       render_fields_path(s["src"], s.get("srcfields")))
        return "inc %s with %s" % (render_fields_path(s["dst"], s.get("fields")), render_data(s["data"]))
    if v == "copy":
        return "copy %s into %s" % (render_fields_path(s["src"], s.get("srcfields")),
                                    render_fields_path(s["dst"], s.get("fields")))
    if v == "done":
        return "done" + ("".join(" " + w for w in s.get("who", [])))
    if v == "bid":
        out = "bid %s %s" % (s["ctl"], " ".join(s["who"]))
        if s.get("at") is not None:
            out += " at %s" % (s["at"] if isinstance(s["at"], str) else lit(s["at"]))
        return out
    if v in ("ready", "start", "run", "stop", "abort"):
        return "%s %s" % (v, s["who"])
    if v == "print":
        return "print %s" % s["msg"]
    if v == "rear":
        out = "rear %s as %s" % (s["orig"], s.get("as", "mine"))
        if s.get("be"):
            out += " be %s" % s["be"]
        if s.get("frame"):
            out += " in frame %s" % s["frame"]
        return out
    if v == "raze":
        out = "raze %s" % s.get("who", "all")
        if s.get("frame"):
            out += " in frame %s" % s["frame"]
        return out
    if v == "raw":
        return s["text"]
    raise ValueError(v)


CTX_FREE = ("go", "timeout", "repeat", "let", "aux", "rec", "raw")


def render(prog, indent="  "):
    lines = []
    for h in prog["houses"]:
        lines.append("house %s" % h["name"])
        for path, data in h.get("inits", []):
            lines.append(indent + "init %s with %s" % (path, render_data(data)))
        for fr in h["framers"]:
            s = "framer %s be %s" % (fr["name"], fr["sched"])
            if fr.get("period") is not None:
                s += " at %s" % fr["period"]
            if fr.get("order"):
                s += " in %s" % fr["order"]
            if fr.get("first"):
                s += " first %s" % fr["first"]
            if fr.get("via"):
                s += " via %s" % fr["via"]
            lines.append(indent + s)
            for f in fr["frames"]:
                s = "frame %s" % f["name"]
                if f.get("over"):
                    s += " in %s" % f["over"]
                if f.get("via"):
                    s += " via %s" % f["via"]
                lines.append(indent * 2 + s)
                if f.get("under"):
                    lines.append(indent * 3 + "under %s" % f["under"])
                if f.get("next"):
                    lines.append(indent * 3 + "next %s" % f["next"])
                cur = None
                for st in f["stmts"]:
                    ctx = st.get("ctx")
                    if st["v"] not in CTX_FREE:
                        if ctx != cur:
                            lines.append(indent * 3 + (ctx or "native"))
                            cur = ctx
                    lines.append(indent * 3 + render_stmt(st))
    return "\n".join(lines) + "\n"


# ------------------------------------------------------------------ static structure
class Static(object):
    """Structure of one framer computed from the AST alone."""

    def __init__(self, fr):
        self.fr = fr
        self.name = fr["name"]
        self.frames = {f["name"]: f for f in fr["frames"]}
        self.order = [f["name"] for f in fr["frames"]]
        self.parent = {f["name"]: f.get("over") for f in fr["frames"]}
        self.children = {n: [] for n in self.order}
        for f in fr["frames"]:          # declaration order (generator declares parents first)
            if f.get("over"):
                self.children[f["over"]].append(f["name"])
        for f in fr["frames"]:
            u = f.get("under")
            if u and u in self.children[f["name"]]:
                ch = self.children[f["name"]]
                ch.remove(u)
                ch.insert(0, u)
        self.first = fr.get("first") or (self.order[0] if self.order else None)
        self.next = {}
        for i, f in enumerate(fr["frames"]):
            self.next[f["name"]] = f.get("next") or (self.order[i + 1] if i + 1 < len(self.order) else None)

    def head(self, name):
        out = []
        while name:
            out.append(name)
            name = self.parent[name]
        return out[::-1]

    def outline(self, name):
        out = self.head(name)
        cur = name
        while self.children[cur]:
            cur = self.children[cur][0]
            out.append(cur)
        return out

    def human(self, name):
        h = self.head(name)
        o = self.outline(name)
        return "<" + "<".join(h) + ">" + ">".join(o[len(h):])

    def head_human(self, name):
        return "<" + "<".join(self.head(name)) + ">"

    def exen(self, nears, far):
        """(exits top-down, enters top-down, reexens top-down) per the C06 statement:
        first point where the current outline and the target's outline differ,
        or where the target itself appears."""
        fars = self.outline(far)
        for i in range(min(len(nears), len(fars))):
            if nears[i] == far or nears[i] != fars[i]:
                return nears[i:], fars[i:], nears[:i]
        return [], [], list(nears)

    def resolve_far(self, near, far):
        if far == "next":
            return self.next[near]
        if far == "me":
            return near
        return far


def statics(prog):
    out = {}
    for h in prog["houses"]:
        for fr in h["framers"]:
            out[fr["name"]] = Static(fr)
    return out


def all_tags(prog):
    tags = []
    for h in prog["houses"]:
        for fr in h["framers"]:
            for f in fr["frames"]:
                for s in f["stmts"]:
                    if s["v"] == "rec":
                        tags.append(s["tag"])
    return tags
