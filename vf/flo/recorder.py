"""Recorder behaviours registered through ioflo's public ``doify`` extension
point (DESIGN 2.A point 1).  ``do vf rec with tag "t17"`` appends one event to
TRACE; it returns True only in benter context (a falsy beact refuses the
entry) and None elsewhere (a truthy preact would *interrupt* precur)."""
from ioflo.base import doing

TRACE = []          # events appended by the behaviours
STATE = {"tick": 0, "watch": [], "store": None, "boom": None, "calls": {}, "framers": None, "alias": {}}


def reset(watch=(), store=None, boom=None, framers=None, alias=None):
    """alias: {name of a clone framer: name it is reported under} (gen.cloneify)"""
    del TRACE[:]
    STATE.update(tick=0, watch=list(watch), store=store, boom=boom, calls={}, framers=framers, alias=dict(alias or {}))


def snapshot(store):
    out = {}
    for path in STATE["watch"]:
        sh = store.fetchShare(path)
        if sh is None:
            out[path] = None
        else:
            out[path] = dict(sh.items())
    return out


class Boom(Exception):
    """raised by vf rec / vf boom at a chosen crash point"""


@doing.doify('VfRec', parametric=True)
def vfRec(self, tag="", **kwa):
    act = self._act
    frame = act.frame
    framer = frame.framer
    ctx = act.context
    alias = STATE["alias"]
    n = STATE["calls"].get(tag, 0) + 1
    STATE["calls"][tag] = n
    TRACE.append({"k": "act", "tick": STATE["tick"], "stamp": self.store.stamp,
                  "framer": alias.get(framer.name, framer.name), "frame": frame.name, "ctx": ctx, "tag": tag,
                  "n": n, "elapsed": framer.elapsedShr.value, "recurred": framer.recurredShr.value,
                  "snap": snapshot(self.store) if STATE["watch"] else None,
                  "done": ({alias.get(f.name, f.name): bool(f.done) for f in STATE["framers"]} if STATE["framers"] else None)})
    boom = STATE["boom"]
    if boom and boom[0] == tag and boom[1] == n:
        if boom[2] == "KeyboardInterrupt":
            raise KeyboardInterrupt()
        raise Boom("boom at %s #%d" % (tag, n))
    if ctx == "benter":
        return True
    return None


@doing.doify('VfAddField', parametric=True)
def vfAddField(self, path="", name="", val=0, **kwa):
    """a deed that writes one field of a share by name at run time; when the share does not have the field yet
    this *adds* it (FloScript's own put/set/copy create their destination fields at resolve time already)"""
    sh = self.store.fetchShare(path)
    sh.update([(name, val)])
    return None
