"""Independent reference interpreter of the documented FloScript semantics
(DESIGN Appendix A).  It consumes the program AST of vf.flo.prog only -- never
an ioflo object -- and produces the same observables the harness records from
the real run: the sequence of recorder events and per-tick snapshots.

Where the property statements and the code disagree this follows the
properties (suspended frames are still entered: a stop, abort or transition
exits them).
"""
from fractions import Fraction

from vf.flo import prog as P

STOP, START, RUN, ABORT, READY = "stop", "start", "run", "abort", "ready"
STOPPED, STARTED, RUNNING, ABORTED, READIED = "stopped", "started", "running", "aborted", "readied"
REACHED = {READY: READIED, START: STARTED, RUN: RUNNING, STOP: STOPPED, ABORT: ABORTED}


class Unsupported(Exception):
    """program uses something the reference semantics leaves open"""


class RFrame(object):
    def __init__(self, framer, ast):
        self.framer = framer
        self.name = ast["name"]
        self.ast = ast
        self.acts = {c: [] for c in ("benter", "enter", "renter", "precur", "recur", "exit", "rexit")}
        self.auxes = []          # names of plain auxes
        for s in ast["stmts"]:
            v = s["v"]
            if v == "aux" and not s.get("needs"):
                if s.get("as"):
                    raise Unsupported("clone aux")
                self.auxes.append(s["aux"])
                continue
            if v in ("go", "timeout", "repeat") or (v == "aux" and s.get("needs")):
                ctx = "precur"
            elif v == "let":
                ctx = "benter"
            else:
                ctx = s.get("ctx") or P.NATIVE_CTX[v]
            self.acts[ctx].append(s)
        # conditional aux: its deactivation runs with the main frame's exit, after the written exit actions
        for s in ast["stmts"]:
            if s["v"] == "aux" and s.get("needs"):
                self.acts["exit"].append({"v": "_deactivize", "aux": s["aux"]})


class RFramer(object):
    def __init__(self, ref, ast):
        self.ref = ref
        self.ast = ast
        self.name = ast["name"]
        self.sched = ast["sched"]
        self.period = Fraction(ast["period"]) if ast.get("period") is not None else Fraction(0)
        self.S = P.Static(ast)
        self.frames = {f["name"]: RFrame(self, f) for f in ast["frames"]}
        self.status = STOPPED
        self.desire = STOP
        self.done = True
        self.active = None
        self.actives = []
        self.t_change = Fraction(0)
        self.elapsed = Fraction(0)
        self.recurred = 0
        self.main = None          # (framer, frame) owning this aux
        self.suspended_by = None  # name of running conditional aux truncating this framer's outline
        self.human = ""
        self.ever_active = None

    def full_outline(self):
        return self.S.outline(self.active) if self.active else []


class Ref(object):
    def __init__(self, prog, maxticks=64, mode="property"):
        """mode 'property': suspended frames are exited on stop/abort/transition (what C06/C10 state);
        mode 'code': exits use the truncated active list like the implementation does (used only to
        tell the known suspended-frames finding apart from any other divergence)."""
        self.mode = mode
        self._susp = 0
        self.prog = prog
        self.P = Fraction(prog["period"])
        self.maxticks = maxticks
        h = prog["houses"][0]
        if len(prog["houses"]) != 1:
            raise Unsupported("several houses")
        self.store = {}
        for path, data in h.get("inits", []):
            self.store.setdefault(path, {}).update(data)
        self.framers = {}
        self.order = []
        for fa in h["framers"]:
            self.framers[fa["name"]] = RFramer(self, fa)
        for o in ("front", "mid", "back"):
            for fa in h["framers"]:
                if fa["sched"] in ("active", "inactive") and (fa.get("order") or "mid") == o:
                    self.order.append(fa["name"])
        self.stamp = Fraction(0)
        self.tick = 0
        self.trace = []
        self.ticks = []
        self.sends = []
        self.flags = set()       # notable situations met (for coverage / classification)
        self.capped = False

    # ------------------------------------------------------------ store
    def get(self, path, field="value"):
        if path not in self.store:
            raise Unsupported("read of share %s without init" % path)
        return self.store[path].get(field)

    def put(self, path, data):
        self.store.setdefault(path, {}).update(data)

    # ------------------------------------------------------------ needs
    def need(self, fr, frame, n):
        k = n["n"]
        if k == "cmp":
            st = n["state"]
            if st == "elapsed":
                state = float(fr.elapsed)
            elif st == "recurred":
                state = fr.recurred
            else:
                state = self.get(st, n.get("field") or "value")
            g = n["goal"]
            if isinstance(g, dict) and "path" in g:
                goal = self.get(g["path"], n.get("goalfield") or "value")
            elif isinstance(g, dict) and "raw" in g:
                goal = float(Fraction(g["raw"])) if "." in g["raw"] or "e" in g["raw"] else int(g["raw"])
            else:
                goal = g
            r = cmp_eval(state, n["op"], goal, n.get("tol"))
        elif k == "bool":
            r = bool(self.get(n["state"], n.get("field") or "value"))
        elif k == "done":
            r = bool(self.framers[n["who"]].done)
        elif k == "auxdone":
            which = n["which"]
            fname = n.get("frame")
            if which in ("any", "all") and not fname:
                fname = "me!"
            if fname:
                fobj = fr.frames[frame.name if fname in ("me", "me!") else fname]
                auxes = [self.framers[a] for a in fobj.auxes]
                if which == "any":
                    r = any(a.done for a in auxes)
                elif which == "all":
                    r = bool(auxes) and all(a.done for a in auxes)
                else:
                    r = (which in fobj.auxes) and bool(self.framers[which].done)
            else:
                r = bool(self.framers[which].done)
        elif k == "status":
            who = fr.name if n["who"] == "me" else n["who"]
            r = self.framers[who].status == n["status"]
        else:
            raise Unsupported("need kind %s" % k)
        return (not r) if n.get("neg") else bool(r)

    # ------------------------------------------------------------ actions
    def emit(self, fr, frame, ctx, tag):
        self.trace.append({"tick": self.tick, "framer": fr.name, "frame": frame.name, "ctx": ctx, "tag": tag,
                           "susp": self._susp > 0})

    def do_act(self, fr, frame, ctx, s):
        """returns the action's result (truthiness matters in benter and precur)"""
        v = s["v"]
        if v == "rec":
            self.emit(fr, frame, ctx, s["tag"])
            return True if ctx == "benter" else None
        if v == "let":
            return all(self.need(fr, frame, n) for n in s["needs"])
        if v in ("go", "timeout", "repeat"):
            return self.transit(fr, frame, s)
        if v == "aux":
            return self.suspender(fr, frame, s)
        if v == "_deactivize":
            aux = self.framers[s["aux"]]
            if not aux.done:
                self.deactivate_aux(aux)
            return None
        if v == "put" or (v == "set" and "data" in s):
            self.put(s["dst"], dict(s["data"]))
            return None
        if v == "inc":
            if "src" in s:
                d = self.get(s["src"])
            else:
                d = s["data"]["value"]
            self.put(s["dst"], {"value": self.get(s["dst"]) + d})
            return None
        if v == "copy" or (v == "set" and "src" in s):
            self.put(s["dst"], {"value": self.get(s["src"])})
            return None
        if v == "done":
            for w in (s.get("who") or ["me"]):
                self.framers[fr.name if w == "me" else w].done = True
            return None
        if v == "bid":
            for w in s["who"]:
                targets = self.order if w == "all" else [fr.name if w == "me" else w]
                for t in targets:
                    tf = self.framers[t]
                    if s.get("at") is not None and s["ctl"] in ("start", "run", "ready"):
                        tf.period = max(Fraction(0), Fraction(str(s["at"])))
                    tf.desire = s["ctl"]
            return None
        if v in (READY, START, RUN, STOP, ABORT):
            slave = self.framers[s["who"]]
            self.flags.add("fiat_" + v)
            st = self.step(slave, v, caller="fiat")
            return st == REACHED[v]
        if v == "print":
            return None
        raise Unsupported("verb %s" % v)

    # ------------------------------------------------------------ frames
    def frame_check_enter(self, fr, frame, exits):
        for s in frame.acts["benter"]:
            if not self.do_act(fr, frame, "benter", s):
                self.flags.add("guard_refused")
                return False
        for a in frame.auxes:
            aux = self.framers[a]
            if aux.main is not None and aux.main != (fr.name, frame.name) and not (
                    aux.main[0] == fr.name and aux.main[1] in exits):
                self.flags.add("aux_ownership_refused")
                return False
            if not self.check_start(aux):
                self.flags.add("aux_guard_refused")
                return False
        return True

    def check_enter(self, fr, enters, exits):
        if not enters:
            return False
        claimed = set()
        for name in enters:
            if not self.frame_check_enter(fr, fr.frames[name], exits):
                return False
            for a in fr.frames[name].auxes:      # an original aux is never active under two frames at once
                if a in claimed:
                    self.flags.add("aux_ownership_refused")
                    return False
                claimed.add(a)
        return True

    def check_start(self, fr):
        return self.check_enter(fr, fr.S.outline(fr.S.first), [])

    def frame_enter(self, fr, frame):
        for s in frame.acts["enter"]:
            self.do_act(fr, frame, "enter", s)
        for a in frame.auxes:
            aux = self.framers[a]
            aux.main = (fr.name, frame.name)
            self.enter_all(aux)
            self.flags.add("aux_entered")

    def frame_exit(self, fr, frame):
        for a in frame.auxes:
            aux = self.framers[a]
            self.exit_all(aux)
            aux.main = None
        for s in frame.acts["exit"]:
            self.do_act(fr, frame, "exit", s)

    def enter(self, fr, enters):
        if enters:
            fr.t_change = self.stamp
            fr.elapsed = Fraction(0)
            fr.recurred = 0
        for name in enters:
            self.frame_enter(fr, fr.frames[name])

    def enter_all(self, fr):
        fr.done = False
        fr.active = fr.S.first
        fr.actives = fr.S.outline(fr.active)
        fr.suspended_by = None
        self.enter(fr, list(fr.actives))

    def exit_frames(self, fr, exits):
        suspended = fr.full_outline()[len(fr.actives):] if fr.suspended_by else []
        for name in reversed(exits):
            if name in suspended:
                self._susp += 1
            try:
                self.frame_exit(fr, fr.frames[name])
            finally:
                if name in suspended:
                    self._susp -= 1

    def exit_all(self, fr, abort=False):
        # property semantics: every entered frame, including frames suspended
        # under a conditional aux, is exited bottom-up
        exits = fr.full_outline() if self.mode == "property" else list(fr.actives)
        if fr.suspended_by:
            self.flags.add("exit_all_while_suspended")
        self.exit_frames(fr, exits)
        fr.actives = []
        fr.active = None
        fr.suspended_by = None
        if not abort:
            fr.done = True

    def recur(self, fr):
        for name in list(fr.actives):
            frame = fr.frames[name]
            for s in frame.acts["recur"]:
                self.do_act(fr, frame, "recur", s)
            for a in frame.auxes:
                self.recur(self.framers[a])

    def segue(self, fr):
        fr.elapsed = self.stamp - fr.t_change
        fr.recurred += 1
        for name in list(fr.actives):
            for a in fr.frames[name].auxes:
                self.segue(self.framers[a])
        for name in list(fr.actives):      # the list as it was when evaluation began
            frame = fr.frames[name]
            for s in frame.acts["precur"]:
                if self.do_act(fr, frame, "precur", s):
                    return True
        return False

    # ------------------------------------------------------------ interrupters
    def transit(self, fr, frame, s):
        v = s["v"]
        if v == "timeout":
            t = s["t"]
            t = Fraction(t["raw"]) if isinstance(t, dict) else Fraction(str(t))
            if not (fr.elapsed >= abs(t)):
                return None
            far = "next"
        elif v == "repeat":
            if not (fr.recurred >= abs(int(s["n"]))):
                return None
            far = "next"
        else:
            for n in s.get("needs", []):
                if not self.need(fr, frame, n):
                    return None
            far = s["far"]
        far = fr.S.resolve_far(frame.name, far)
        if far is None:
            raise Unsupported("go next from last frame")
        nears = fr.full_outline() if self.mode == "property" else list(fr.actives)
        if fr.suspended_by:
            self.flags.add("transition_while_suspended")
            if far in nears[len(fr.actives):]:
                raise Unsupported("target is a suspended descendant")
        exits, enters, reexens = fr.S.exen(nears, far)
        if not self.check_enter(fr, enters, exits):
            self.flags.add("transition_refused")
            return None
        if fr.suspended_by and fr.actives and fr.actives[-1] not in exits:
            # the main frame of the running conditional aux stays entered: whether the frames entered
            # below it are suspended is not settled by the documentation (A.9)
            raise Unsupported("transition keeps the main frame of a running conditional aux")
        self.exit_frames(fr, exits)
        for name in reversed(reexens):
            for a in fr.frames[name].acts["rexit"]:
                self.do_act(fr, fr.frames[name], "rexit", a)
        for name in reexens:
            for a in fr.frames[name].acts["renter"]:
                self.do_act(fr, fr.frames[name], "renter", a)
        self.enter(fr, enters)
        fr.active = far
        fr.actives = fr.S.outline(far)
        fr.suspended_by = None
        self.flags.add("transition")
        return far

    def deactivate_aux(self, aux):
        self.exit_all(aux)
        aux.main = None

    def suspender(self, fr, frame, s):
        aux = self.framers[s["aux"]]
        if aux.done:
            for n in s["needs"]:
                if not self.need(fr, frame, n):
                    return None
            if aux.main is not None and aux.main != (fr.name, frame.name):
                return None
            if not self.check_start(aux):
                return None
            aux.main = (fr.name, frame.name)
            self.enter_all(aux)
            self.recur(aux)
            self.flags.add("condaux_activated")
            if aux.done:
                self.deactivate_aux(aux)
                self.flags.add("condaux_immediate")
                return None
            if fr.suspended_by and fr.suspended_by != aux.name:
                raise Unsupported("nested conditional auxes active at once")
            fr.actives = fr.S.head(frame.name)
            fr.suspended_by = aux.name
            if len(fr.actives) < len(fr.full_outline()):
                self.flags.add("condaux_truncated")
            return aux.name
        else:
            self.segue(aux)
            self.recur(aux)
            if aux.done:
                self.deactivate_aux(aux)
                fr.actives = fr.full_outline()
                fr.suspended_by = None
                self.flags.add("condaux_completed")
                return None
            return aux.name

    # ------------------------------------------------------------ framer control table
    def step(self, fr, control, caller="skedder"):
        self.sends.append({"tick": self.tick, "tasker": fr.name, "control": control, "caller": caller})
        st = fr.status
        if control == RUN:
            if st in (RUNNING, STARTED):
                self.segue(fr)
                self.recur(fr)
                fr.status = RUNNING
            elif st in (STOPPED, READIED):
                fr.desire = START
            else:
                fr.desire, fr.status = ABORT, ABORTED
        elif control == READY:
            if st in (STOPPED, READIED):
                if self.check_start(fr):
                    fr.status = READIED
                else:
                    fr.desire, fr.status = STOP, STOPPED
                    self.flags.add("ready_failed")
            elif st in (RUNNING, STARTED):
                pass
            else:
                fr.desire, fr.status = ABORT, ABORTED
        elif control == START:
            if st in (STOPPED, READIED):
                if self.check_start(fr):
                    fr.desire = RUN
                    self.enter_all(fr)
                    self.recur(fr)
                    fr.status = STARTED
                else:
                    fr.desire, fr.status = STOP, STOPPED
                    self.flags.add("start_failed")
            elif st in (RUNNING, STARTED):
                fr.desire = RUN
            else:
                fr.desire, fr.status = ABORT, ABORTED
        elif control == STOP:
            if st in (RUNNING, STARTED):
                fr.desire = STOP
                self.exit_all(fr, abort=True)
                fr.status = STOPPED
            elif st in (STOPPED, READIED):
                pass
            else:
                fr.desire, fr.status = ABORT, ABORTED
        else:
            if st in (RUNNING, STARTED):
                self.exit_all(fr)
            fr.desire, fr.status = ABORT, ABORTED
        self.sends[-1]["status"] = fr.status
        return fr.status

    # ------------------------------------------------------------ tick loop
    def snapshot(self):
        fs = {}
        for n, fr in self.framers.items():
            fs[n] = {"status": fr.status, "actives": list(fr.actives), "active": fr.active, "done": fr.done,
                     "full": fr.full_outline(), "suspended_by": fr.suspended_by,
                     "main": fr.main[1] if fr.main else None}
        return {"tick": self.tick, "framers": fs, "shares": {k: dict(v) for k, v in self.store.items()}}

    def run(self):
        ready = []
        for n in self.order:
            fr = self.framers[n]
            fr.desire = START if fr.sched == "active" else STOP
            fr.status = STOPPED
            ready.append([n, Fraction(0)])
        while True:
            more = False
            for item in list(ready):
                n, due = item
                fr = self.framers[n]
                if due > self.stamp:
                    status = fr.status
                else:
                    status = self.step(fr, fr.desire)
                    if status == ABORTED:
                        ready.remove(item)
                    else:
                        item[1] = due + fr.period
                if status in (RUNNING, STARTED):
                    more = True
            self.ticks.append(self.snapshot())
            if not ready or not more:
                break
            self.stamp += self.P
            self.tick += 1
            if self.tick >= self.maxticks:
                self.capped = True
                break
        self.presweep = self.snapshot()
        for n, due in ready:
            self.step(self.framers[n], ABORT, caller="sweep")
        self.final = self.snapshot()
        return self


def isnum(x):
    return isinstance(x, (int, float)) and not isinstance(x, str)


def cmp_eval(state, op, goal, tol):
    tol = 0 if tol is None else tol
    if op in ("==", "!="):
        if isnum(state) and isnum(goal):
            r = (goal - abs(tol)) <= state <= (goal + abs(tol))
        else:
            r = (state == goal)
        return r if op == "==" else (not r)
    return {"<": state < goal, "<=": state <= goal, ">=": state >= goal, ">": state > goal}[op]
