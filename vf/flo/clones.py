"""Engine-A helpers for C12 (clones of moot framers, rear / raze).

* a recorder behaviour ``do vf crec with tag "t"`` that, besides the action
  event, keeps a registry of every framer *object* hosted (directly or nested)
  by the main framers of the program: which frame hosts it, when it appeared
  (build time or at a rear marker), when it vanished (at a raze marker), the
  resolved store path of every share its built acts refer to, and the values
  of those shares at every one of its events;
* a generator of programs that clone moot framers (named / insular / reared,
  nested, with ``via`` inodes) and rear / raze them at generated ticks;
* three renderings of one generated case: Q1 (clones), Q2 (every clone replaced
  by a hand-expanded ordinary auxiliary framer), Q3 (one moot scheduled as an
  ordinary aux itself);

Nothing here is a model taken from ioflo: the generator's own description of a
reference (``ref['kind']``) says what it is relative to.
"""
import copy
import random as _random

from ioflo.base import doing, framing, storing, acting

from vf.flo import recorder as _rec

OBS = None           # the Observation of the run in progress


# --------------------------------------------------------------------------- observation
class Info(object):
    """one framer object seen in the hosting tree"""

    def __init__(self, obj, fid, sid, kind, host, hostframe, body, born, depth):
        self.obj = obj
        self.fid = fid
        self.name = obj.name
        self.sid = sid              # structural id (host sid / frame # index | @ rear ordinal)
        self.kind = kind            # main | static | reared
        self.host = host            # Info of the hosting framer
        self.hostframe = hostframe  # name of the hosting frame
        self.body = body            # framer definition (generator data) this object was built from
        self.born = born            # index of the marker event at which it was first seen (None: build time)
        self.died = None            # index of the marker event at which it was found removed
        self.depth = depth
        self.refs = []              # [(frame, ctx, ordinal, share or node)]
        self.flags = {}

    @property
    def live(self):
        return self.died is None


def walk_refs(framer):
    """every Share / Node reachable from the parameters of the built acts of `framer`,
    in a deterministic order: frames in declaration order, contexts in a fixed order,
    acts in list order, parameters in their own order, nested acts (needs) recursively"""
    out = []
    lists = [("beacts", "benter"), ("enacts", "enter"), ("renacts", "renter"), ("preacts", "precur"),
             ("reacts", "recur"), ("exacts", "exit"), ("rexacts", "rexit")]

    def visit(v, acc, depth=0):
        if depth > 6:
            return
        if isinstance(v, (storing.Share, storing.Node)):
            acc.append(v)
        elif isinstance(v, acting.Act):
            if isinstance(v.parms, dict):
                for k, x in v.parms.items():
                    visit(x, acc, depth + 1)
            actor = v.actor
            if isinstance(actor, acting.Actor):
                for k, x in vars(actor).items():
                    if not k.startswith("_") and isinstance(x, (storing.Share, storing.Node)):
                        acc.append(x)
        elif isinstance(v, dict):
            for k, x in v.items():
                if k != "human":
                    visit(x, acc, depth + 1)
        elif isinstance(v, (list, tuple)):
            for x in v:
                visit(x, acc, depth + 1)

    for frame in framer.frameNames.values():
        for attr, ctx in lists:
            acc = []
            for act in getattr(frame, attr):
                if isinstance(act.actor, acting.Marker):
                    continue          # the mark-setting act the builder adds for an `is updated` / `is changed` need
                visit(act, acc)
            for i, sh in enumerate(acc):
                out.append((frame.name, ctx, i, sh))
    return out


def _val(sh):
    if isinstance(sh, storing.Share):
        try:
            return sh.value
        except Exception:          # pragma: no cover
            return "<?>"
    return None


class Observation(object):
    def __init__(self, case, mode):
        self.case = case
        self.mode = mode            # q1 | q2 | q3
        self.events = []
        self.markers = []           # indices into events of marker events
        self.infos = []
        self.byid = {}
        self.ready = False
        self.rear_ordinal = 0
        self.problems = []          # harness-level problems (-> inconclusive)
        self.interference = []      # [(event index, owner fid, path, old, new, actor fid)]
        self.last = {}              # path -> last seen value of shares owned by one framer
        self.owner = {}             # path -> fid or None when shared
        self.house = None
        self.defs = {d["name"]: d for d in case.get("defs", [])}
        self.moots = {d["name"]: d for d in case["moots"]}
        self.mains = {d["name"]: d for d in case["mains"]}

    # ---- registry
    def body_for(self, aux, host, frame, idx, marker_stmt):
        if aux.name in self.defs:                # hand-written ordinary aux (Q2) or the original itself (Q3)
            return self.defs[aux.name]
        if aux.name in self.moots and self.mode == "q3":
            return self.moots[aux.name]
        if marker_stmt is not None:
            return self.moots.get(marker_stmt["moot"])
        fdef = None
        for f in (host.body or {"frames": []})["frames"]:
            if f["name"] == frame:
                fdef = f
        if fdef is None:
            return None
        auxes = [s for s in fdef["stmts"] if s["k"] == "aux"]
        if idx < len(auxes):
            a = auxes[idx]
            return self.defs.get(a.get("plain")) or self.moots.get(a.get("moot"))
        return None

    def register(self, obj, kind, host, frame, idx, born, marker_stmt=None):
        if kind == "main":
            sid = obj.name
            body = self.mains[obj.name]
            depth = 0
        else:
            if kind == "reared":
                sid = "%s/%s@%d" % (host.sid, frame, self.rear_ordinal)
                self.rear_ordinal += 1
            else:
                sid = "%s/%s#%d" % (host.sid, frame, idx)
            body = self.body_for(obj, host, frame, idx, marker_stmt)
            depth = host.depth + 1
            if body is None:
                self.problems.append("no body known for %s hosted in %s.%s" % (obj.name, host.name, frame))
        info = Info(obj, len(self.infos), sid, kind, host, frame, body, born, depth)
        info.flags = {"original": bool(obj.original), "insular": bool(obj.insular), "razeable": bool(obj.razeable),
                      "inode": obj.inode}
        try:
            info.refs = walk_refs(obj)
        except Exception as e:      # pragma: no cover
            self.problems.append("walk failed for %s: %r" % (obj.name, e))
        self.infos.append(info)
        self.byid[id(obj)] = info
        return info

    def scan(self, born=None, marker_stmt=None, acting_host=None):
        """find framer objects that appeared in / vanished from the hosting tree"""
        queue = [i for i in self.infos if i.live]
        fresh = []
        for info in queue:
            if not info.live:
                continue
            for frame in info.obj.frameNames.values():
                nstatic = 0
                for idx, aux in enumerate(list(frame.auxes)):
                    if not isinstance(aux, framing.Framer):
                        continue
                    if id(aux) in self.byid:
                        continue
                    if born is not None and info not in fresh:
                        kind = "reared"
                    else:
                        kind = "static"
                    ni = self.register(aux, kind, info, frame.name, idx, born,
                                       marker_stmt if kind == "reared" else None)
                    fresh.append(ni)
                    queue.append(ni)
        gone = []
        for info in self.infos:
            if info.live and info.host is not None:
                if not info.host.live:
                    info.died = info.host.died
                    gone.append(info)
                    continue
                fr = info.host.obj.frameNames.get(info.hostframe)
                if fr is None or not any(a is info.obj for a in fr.auxes):
                    info.died = born
                    gone.append(info)
        if fresh or gone:
            self.reown()
        return fresh, gone

    def reown(self):
        self.owner = {}
        for info in self.infos:
            if not info.live or info.body is None:
                continue
            kinds = ref_kinds(info.body)
            for (frame, ctx, i, sh) in info.refs:
                k = kinds.get((frame, ctx, i))
                if k in ("framer", "frame", "framen", "me") and isinstance(sh, storing.Share):
                    p = sh.name
                    if p in self.owner and self.owner[p] != info.fid:
                        self.owner[p] = None
                    else:
                        self.owner[p] = info.fid
        shares = {}
        for info in self.infos:
            for (frame, ctx, i, sh) in info.refs:
                if isinstance(sh, storing.Share):
                    shares[sh.name] = sh
        self.shares = shares
        self.last = {p: _val(shares[p]) for p, o in self.owner.items() if o is not None}

    def start(self, house):
        self.house = house
        for fr in house.framers:
            if fr.name in self.mains:
                self.register(fr, "main", None, None, None, None)
        missing = [n for n in self.mains if n not in [i.name for i in self.infos]]
        if missing:
            self.problems.append("main framers not found: %s" % missing)
        self.scan(born=None)
        self.ready = True

    # ---- events
    def on_event(self, actor, tag):
        act = actor._act
        frame = act.frame
        framer = frame.framer
        if not self.ready:
            self.start(actor.store.house)
        info = self.byid.get(id(framer))
        idx = len(self.events)
        ev = {"i": idx, "tick": _rec.STATE["tick"], "framer": framer.name, "fid": info.fid if info else None,
              "frame": frame.name, "ctx": act.context, "tag": tag,
              "el": framer.elapsedShr.value, "rc": framer.recurredShr.value}
        if info is not None:
            ev["vals"] = [_val(sh) for (_f, _c, _i, sh) in info.refs]
        # interference: a share owned by exactly one framer changed since the previous event
        for p, old in self.last.items():
            new = _val(self.shares[p])
            if new != old:
                self.last[p] = new
                own = self.owner.get(p)
                if own is not None and (info is None or own != info.fid):
                    if len(self.interference) < 20:
                        self.interference.append({"event": idx, "owner": self.infos[own].name, "path": p, "old": old,
                                                  "new": new, "observed_at_event_of": framer.name, "tag": tag})
        if tag.startswith("@"):
            kind, sid, phase = tag[1:].split(":")
            stmt = self.case["markers"].get(sid)
            ev["marker"] = len(self.markers)
            self.markers.append(idx)
            fresh, gone = self.scan(born=ev["marker"], marker_stmt=stmt if kind == "rear" else None)
            ev["fresh"] = [i.fid for i in fresh]
            ev["gone"] = [i.fid for i in gone]
            hostinfo = info
            snap = {}
            if hostinfo is not None:
                for fr in hostinfo.obj.frameNames.values():
                    snap[fr.name] = [self.byid[id(a)].fid if id(a) in self.byid else -1 for a in fr.auxes
                                     if isinstance(a, framing.Framer)]
            ev["auxes"] = snap
            ev["names"] = sorted(framing.Framer.Names.keys())
            ev["active"] = [f.name for f in framer.actives]
        self.events.append(ev)


@doing.doify('VfCrec', parametric=True)
def vfCrec(self, tag="", **kwa):
    if OBS is not None:
        OBS.on_event(self, tag)
    if self._act.context == "benter":
        return True
    return None


# --------------------------------------------------------------------------- generator
CSH = [".c0", ".c1", ".c2", ".c3"]
REC_CTX = ["enter", "recur", "exit", "precur", "renter", "rexit"]


def ref(kind, leaf, frame=None):
    return {"kind": kind, "leaf": leaf, "frame": frame}


_PMARK = [0.0]


def gen_need(rng, is_main, frames):
    r = rng.random()
    if r < _PMARK[0]:
        # `is updated` / `is changed` on a share the driver writes: the mark behind it belongs to this framer (this clone) alone,
        # whatever tag other clones of the same moot carry.  (Only in cases without rear: a mark remembers the past, and the
        # stand-in of a reared clone has a longer past than the clone.)
        kind, share, r_in = rng.choice(["updated", "changed"]), rng.choice(CSH), rng.random()
        # an explicit `by <mark>` names the mark; it is still this framer's (this clone's) own
        return {"mark": kind, "ref": ref("abs", share), "inframe": r_in < 0.4, "by": "mk" if int(r_in * 1000) % 3 == 0 else None}
    if r < 0.3:
        return {"ref": ref("abs", rng.choice(CSH)), "op": rng.choice(["==", "!=", ">=", "<"]), "val": rng.randint(0, 2)}
    if r < 0.45:
        if rng.random() < 0.6:
            return {"clock": "recurred", "op": ">=", "val": rng.randint(1, 3)}
        return {"clock": "elapsed", "op": ">=", "val": rng.choice([0.125, 0.25, 0.375])}
    if r < 0.7 or is_main:
        k = rng.random()
        if k < 0.5:
            return {"ref": ref("framer", "cnt"), "op": ">=", "val": rng.randint(1, 5)}
        if k < 0.8:
            return {"ref": ref("frame", "n"), "op": ">=", "val": rng.randint(1, 4)}
        return {"ref": ref("framen", "n", rng.choice(frames)), "op": rng.choice([">=", "<", "=="]), "val": rng.randint(0, 3)}
    if rng.random() < 0.5:
        return {"ref": ref("fmain", "cnt"), "op": rng.choice([">=", "<", "!="]), "val": rng.randint(0, 6)}
    return {"ref": ref("frmain", "n"), "op": rng.choice([">=", "<", "=="]), "val": rng.randint(0, 4)}


def gen_poke(rng, is_main, frames, with_me):
    kinds = ["framer", "framer", "frame", "frame", "framen"] + (["me", "me"] if with_me else [])
    k = rng.choice(kinds)
    if k == "framer":
        r = ref("framer", "cnt")
    elif k == "frame":
        r = ref("frame", "n")
    elif k == "framen":
        r = ref("framen", "n", rng.choice(frames))
    else:
        r = ref("me", "k")
    op = "inc" if rng.random() < 0.75 else "put"
    return {"k": "poke", "op": op, "ref": r, "val": rng.randint(1, 3) if op == "inc" else rng.randint(0, 4),
            "ctx": rng.choice(["enter", "enter", "recur", "recur", "exit", "precur", "renter"])}


def gen_forest(rng, prefix, n, p_nest, maxdepth=3):
    frames, depth = [], {}
    for i in range(n):
        name = "%s%d" % (prefix, i)
        over = None
        cands = [f["name"] for f in frames if depth[f["name"]] < maxdepth - 1]
        if cands and rng.random() < p_nest:
            over = rng.choice(cands)
        depth[name] = 0 if over is None else depth[over] + 1
        frames.append({"name": name, "over": over, "stmts": []})
    # explicit primary-child overrides (`under`): the clone must keep them like its original
    kids = {}
    for f in frames:
        if f["over"]:
            kids.setdefault(f["over"], []).append(f["name"])
    for f in frames:
        ks = kids.get(f["name"], [])
        if len(ks) > 1 and rng.random() < 0.6:
            f["under"] = rng.choice(ks[1:])
    return frames


def root_of(frames, name):
    by = {f["name"]: f for f in frames}
    while by[name]["over"]:
        name = by[name]["over"]
    return name


def init_block(name, frames, with_me):
    st = [{"k": "poke", "op": "put", "ref": ref("framer", "cnt"), "val": 0, "ctx": "enter"}]
    if with_me:
        st.append({"k": "poke", "op": "put", "ref": ref("me", "k"), "val": 0, "ctx": "enter"})
    for f in frames:
        st.append({"k": "poke", "op": "put", "ref": ref("framen", "n", f["name"]), "val": 0, "ctx": "enter"})
    st.append({"k": "rec", "tag": "%s.init" % name, "ctx": "enter"})
    return st


VIA_AUX = [None, "me", "mine", "b", "b", "me.b", ".abs.b", ".abs.b", "framer.me.b", "framer.me.b"]
VIA_MOOT = [None, "mb", ".abs.mb", "framer.me.mb", "framer.me.mb", "framer.me.mb"]


def gen_moot(rng, name, later, budget, uniq, with_me=True, with_main=True):
    """later: list of (moot name, size) that may be nested; budget: max nested size"""
    if rng.random() < 0.3:      # a bushier forest: several children per frame, so that `under` overrides occur
        nfr = rng.randint(3, 5)
        frames = gen_forest(rng, "x", nfr, 0.7)
    else:
        nfr = rng.randint(1, 4)
        frames = gen_forest(rng, "x", nfr, 0.35)
    names = [f["name"] for f in frames]
    first = rng.choice(names) if rng.random() < 0.25 else None
    root = root_of(frames, first or names[0])
    size = 1
    nests = []
    for f in frames:
        st = []
        if f["name"] == root:
            st += init_block(name, frames, with_me)
        for c in REC_CTX:
            if rng.random() < (0.8 if c in ("enter", "recur", "exit") else 0.35):
                st.append({"k": "rec", "tag": "%s.%s.%s" % (name, f["name"], c), "ctx": c})
        for j in range(rng.randint(0, 2)):
            p = gen_poke(rng, False, names, with_me)
            st.append(p)
            st.append({"k": "rec", "tag": "%s.%s.p%d" % (name, f["name"], j), "ctx": p["ctx"]})
        for _nest in range(rng.choice([1, 1, 2, 3])):       # sometimes several nested clones in one frame
            if later and budget - size > 0 and rng.random() < 0.6:
                cands = [(n, s) for n, s in later if s <= budget - size]
                if cands:
                    n, s = rng.choice(cands)
                    as_ = "mine" if rng.random() < 0.6 else "n%d" % uniq()
                    via = rng.choice(VIA_AUX)
                    if via and via.endswith("b"):
                        via = via + str(uniq())
                    st.append({"k": "aux", "moot": n, "as": as_, "via": via})
                    nests.append(n)
                    size += s
        for _ in range(rng.randint(1, 2)):
            far = rng.choice(names + ["next", "me"])
            if far == "next" and f["name"] == names[-1]:
                far = rng.choice(names)
            needs = [gen_need(rng, not with_main, names) for _ in range(1 if rng.random() < 0.75 else 2)]
            st.append({"k": "go", "far": far, "needs": needs})
        # a goal of the framer's own (`set elapsed with 0.25` writes framer.me.goal.elapsed) and a transition that waits
        # for it (`if elapsed >= goal`): in a clone both sides are the clone's.  Drawn from a generator of its own so
        # that everything else of the case stays what it was.
        _st = rng.getstate()[1]
        r2 = _random.Random(repr((_st[0], _st[1], _st[-1], f["name"])))
        if r2.random() < 0.3:
            clock = r2.choice(["elapsed", "recurred"])
            st.insert(0, {"k": "goal", "clock": clock, "val": r2.choice([0.25, 0.375, 0.5]) if clock == "elapsed" else r2.choice([2, 3, 4])})
            far = r2.choice([n for n in names if n != f["name"]] or names)
            firstgo = min(i for i, x in enumerate(st) if x["k"] == "go")       # among the transitions at the end of the frame
            st.insert(r2.randint(firstgo, len(st)), {"k": "go", "far": far, "needs": [{"clock": clock, "op": ">=", "val": "goal"}]})
        f["stmts"] = st
    # like the counters, the goals start from a known value whenever the framer is entered at its root (a share outlives
    # a razed clone, and a stand-in outlives several clones)
    used = sorted(set(x["clock"] for f in frames for x in f["stmts"] if x["k"] == "goal"))
    rootf = [f for f in frames if f["name"] == root][0]
    for clock in used:
        rootf["stmts"].insert(0, {"k": "goal", "clock": clock, "val": 0})
    if rng.random() < 0.6:
        f = rng.choice(frames)
        f["stmts"].insert(len(f["stmts"]) - 1 if f["stmts"] and f["stmts"][-1]["k"] == "go" else len(f["stmts"]),
                          {"k": "done", "ctx": rng.choice(["enter", "recur"])})
        # keep every go after the done statement's context switch harmless: go is context free
    via = rng.choice(VIA_MOOT) if with_me else None
    if via and via.endswith("mb"):
        via = via + str(uniq())
    return {"name": name, "sched": "moot", "via": via, "first": first, "frames": frames, "size": size, "nests": nests}


def gen_case(rng, opt=None):
    opt = opt or {}
    counter = [0]

    def uniq():
        counter[0] += 1
        return counter[0]

    opt = dict(opt)
    _PMARK[0] = 0.0
    if rng.random() < opt.get("p_marks", 0.3):
        _PMARK[0] = 0.3
        opt["p_rear"] = 0.0
    ticks = rng.randint(12, 22)
    nmoots = rng.randint(2, 4)
    mnames = ["m%s" % c for c in "abcd"[:nmoots]]
    moots = []
    later = []
    for nm in reversed(mnames):
        m = gen_moot(rng, nm, later, budget=rng.choice([1, 2, 3, 4, 5]), uniq=uniq)
        moots.insert(0, m)
        later.append((nm, m["size"]))
    solo = None
    if rng.random() < opt.get("p_solo", 0.4):
        # the moot that Q3 schedules as an ordinary aux: an ordinary aux has no main at resolve time, so it (and
        # what it nests) uses no inode-relative reference and it does not look at its main itself
        inner = []
        if rng.random() < 0.6:
            my = gen_moot(rng, "my", [], budget=1, uniq=uniq, with_me=False, with_main=True)
            moots.append(my)
            inner = [("my", 1)]
        solo = gen_moot(rng, "mz", inner, budget=3, uniq=uniq, with_me=False, with_main=False)
        for f in solo["frames"]:
            for st in f["stmts"]:
                if st["k"] == "aux":
                    st["via"] = None
        moots.append(solo)
    usable = [(m["name"], m["size"]) for m in moots if m["name"] not in ("mz", "my")]
    markers = {}
    mains = []
    want_rear = rng.random() < opt.get("p_rear", 0.75)
    solo_placed = False
    for mi in range(rng.randint(1, 2)):
        mname = "m%d" % mi
        nst = rng.randint(3, 5)
        top = rng.random() < 0.5
        frames = []
        if top:
            frames.append({"name": "top", "over": None, "stmts": []})
        stations = []
        for i in range(nst):
            fr = {"name": "f%d" % i, "over": "top" if top else None, "stmts": []}
            frames.append(fr)
            stations.append(fr)
        snames = [f["name"] for f in stations]
        allnames = [f["name"] for f in frames]
        hosts = rng.sample(snames, rng.randint(1, min(2, len(snames))))     # frames receiving reared clones
        for f in frames:
            st = []
            if f["name"] == allnames[0]:
                st += init_block(mname, frames, False)
            st.append({"k": "rec", "tag": "%s.%s.enter" % (mname, f["name"]), "ctx": "enter"})
            for c in ("recur", "exit", "renter"):
                if rng.random() < 0.5:
                    st.append({"k": "rec", "tag": "%s.%s.%s" % (mname, f["name"], c), "ctx": c})
            for j in range(rng.randint(0, 2)):
                p = gen_poke(rng, True, allnames, False)
                st.append(p)
                st.append({"k": "rec", "tag": "%s.%s.p%d" % (mname, f["name"], j), "ctx": p["ctx"]})
            # static clones
            nstat = rng.choice([0, 0, 1, 1, 2]) if f["name"] != "top" else rng.choice([0, 1])
            if f["name"] in hosts and rng.random() < 0.6:
                nstat = max(nstat, 1)
            for _ in range(nstat):
                n, s = rng.choice(usable)
                as_ = "mine" if rng.random() < 0.5 else "c%d" % uniq()
                via = rng.choice(VIA_AUX)
                if via and via.endswith("b"):
                    via = via + str(uniq())
                st.append({"k": "aux", "moot": n, "as": as_, "via": via})
            if solo and not solo_placed and f["name"] != "top" and rng.random() < 0.5:
                st.append({"k": "aux", "moot": "mz", "as": "mine" if rng.random() < 0.5 else "cz", "via": None})
                solo_placed = True
            f["stmts"] = st
        # rear / raze statements
        if want_rear:
            for _ in range(rng.randint(2, 4)):
                R = rng.choice(stations)
                F = rng.choice([h for h in hosts if h != R["name"]] or [s for s in snames if s != R["name"]])
                sid = "r%d" % uniq()
                n, s = rng.choice(usable)
                ctx = rng.choice(["enter", "enter", "exit", "renter"])
                form = rng.choice(["full", "noas", "nobe", "bare"])
                markers[sid] = {"k": "rear", "moot": n, "frame": F, "framer": mname, "in": R["name"], "form": form}
                R["stmts"] += [{"k": "rec", "tag": "@rear:%s:pre" % sid, "ctx": ctx},
                               {"k": "rear", "moot": n, "frame": F, "ctx": ctx, "form": form, "id": sid},
                               {"k": "rec", "tag": "@rear:%s:post" % sid, "ctx": ctx}]
            for _ in range(rng.randint(1, 3)):
                who = rng.choice(["all", "first", "first", "last", "last"])
                sid = "z%d" % uniq()
                r = rng.random()
                if r < 0.55:       # from another frame
                    Z = rng.choice(stations)
                    tgt = [h for h in hosts if h != Z["name"]] or [s for s in snames if s != Z["name"]]
                    if top and rng.random() < 0.1:
                        tgt = ["top"]
                    F = rng.choice(tgt)
                    ctx = rng.choice(["exit", "enter", "enter"])
                    explicit = True
                else:              # in the host frame itself (frame me)
                    F = rng.choice(hosts)
                    Z = [s for s in stations if s["name"] == F][0]
                    ctx = "recur" if r > 0.9 else rng.choice(["exit", "exit", "enter"])
                    explicit = rng.random() < 0.3
                markers[sid] = {"k": "raze", "who": who, "frame": F, "framer": mname, "in": Z["name"], "ctx": ctx}
                Z["stmts"] += [{"k": "rec", "tag": "@raze:%s:pre" % sid, "ctx": ctx},
                               {"k": "raze", "who": who, "frame": F if explicit else None, "ctx": ctx, "id": sid,
                                "me": F == Z["name"] and explicit and rng.random() < 0.5},
                               {"k": "rec", "tag": "@raze:%s:post" % sid, "ctx": ctx}]
        # transitions: stations cycle, with some condition driven jumps
        for i, f in enumerate(stations):
            st = f["stmts"]
            if rng.random() < 0.5:
                st.append({"k": "go", "far": rng.choice(snames), "needs": [gen_need(rng, True, allnames)]})
            nxt = snames[(i + 1) % len(snames)]
            st.append({"k": "go", "far": nxt, "needs": [{"clock": "recurred", "op": ">=", "val": rng.randint(1, 3)}]})
        via = rng.choice([None, ".top%d" % mi, "tp%d" % mi])
        mains.append({"name": mname, "sched": "active", "via": via,
                      "first": rng.choice(snames) if rng.random() < 0.3 and not top else None, "frames": frames})
        if mains[-1]["first"]:
            # the init block must run first: put it in the first frame instead
            f0 = frames[0]
            blk = [s for s in f0["stmts"][:len(init_block(mname, frames, False))]]
            del f0["stmts"][:len(blk)]
            tgt = [f for f in frames if f["name"] == mains[-1]["first"]][0]
            tgt["stmts"][0:0] = blk
    if solo and not solo_placed:
        f = [x for x in mains[0]["frames"] if x["name"] != "top"][0]
        # aux statements may stand anywhere in the frame
        f["stmts"].insert(1, {"k": "aux", "moot": "mz", "as": "cz", "via": None})
    plan = {}
    for _ in range(rng.randint(3, 7)):
        t = rng.randint(1, max(1, ticks - 2))
        plan.setdefault(t, []).append((rng.choice(CSH), rng.randint(0, 2)))
    inits = [[sh, rng.randint(0, 2)] for sh in CSH]
    return {"ticks": ticks, "plan": {str(k): v for k, v in plan.items()}, "inits": inits,
            "mains": mains, "moots": moots, "markers": markers, "solo": "mz" if solo else None}


# --------------------------------------------------------------------------- static helpers on a body
def stmt_refs(s):
    if s["k"] == "poke":
        return [s["ref"]]
    if s["k"] == "go":
        out = []
        for n in s["needs"]:
            if "clock" in n:
                out.append({"kind": "clock", "leaf": n["clock"], "frame": None})
                if n["val"] == "goal":          # the framer's own goal share is the other operand
                    out.append({"kind": "clock", "leaf": "goal." + n["clock"], "frame": None})
            else:
                out.append(n["ref"])
        return out
    if s["k"] == "goal":
        return [{"kind": "clock", "leaf": "goal." + s["clock"], "frame": None}]
    return []


def stmt_ctx(s):
    if s["k"] == "go":
        return "precur"
    if s["k"] == "goal":
        return "enter"
    if s["k"] in ("aux", "rec", "rear", "raze", "done"):
        return None
    return s["ctx"]


_KINDS_CACHE = {}


def ref_kinds(body):
    """{(frame, ctx, ordinal): kind} in the order walk_refs enumerates them"""
    key = id(body)
    hit = _KINDS_CACHE.get(key)
    if hit is not None and hit[0] is body:
        return hit[1]
    out = {}
    for f in body["frames"]:
        per = {}
        for s in f["stmts"]:
            c = stmt_ctx(s)
            if c is None:
                continue
            for r in stmt_refs(s):
                i = per.get(c, 0)
                per[c] = i + 1
                out[(f["name"], c, i)] = r["kind"]
    _KINDS_CACHE[key] = (body, out)
    return out


# --------------------------------------------------------------------------- rendering
def lit(v):
    return repr(v)


def join_inode(eff, leaf, selfname=None):
    kind, parts = eff
    if kind == "fme":
        return "framer", ".".join(parts + [leaf])
    return "abs", "." + ".".join(parts + [leaf])


def ref_text(r, env):
    """env None: relative form as written in a moot (Q1); env dict: hand-expanded form of the stand-in"""
    k = r["kind"]
    if k == "abs":
        return r["leaf"]
    if k == "framer":
        return "%s of framer" % r["leaf"]
    if k == "frame":
        return "%s of frame" % r["leaf"]
    if k == "framen":
        return "%s of frame %s" % (r["leaf"], r["frame"])
    if env is None:
        if k == "fmain":
            return "%s of framer main" % r["leaf"]
        if k == "frmain":
            return "%s of frame main" % r["leaf"]
        if k == "me":
            return "%s of me" % r["leaf"]
    else:
        if k == "fmain":
            return "%s of framer %s" % (r["leaf"], env["hostframer"])
        if k == "frmain":
            return "%s of frame %s of framer %s" % (r["leaf"], env["hostframe"], env["hostframer"])
        if k == "me":
            how, path = join_inode(env["eff"], r["leaf"])
            if how == "framer":
                return "%s of framer" % path
            return path
    raise ValueError(k)


def need_text(n, env):
    if "mark" in n:
        return "%s is %s%s%s" % (ref_text(n["ref"], env), n["mark"], " in frame" if n.get("inframe") else "",
                                 " by %s" % n["by"] if n.get("by") else "")
    if "clock" in n:
        return "%s %s %s" % (n["clock"], n["op"], "goal" if n["val"] == "goal" else lit(n["val"]))
    return "%s %s %s" % (ref_text(n["ref"], env), n["op"], lit(n["val"]))


def stmt_text(s, env, mode):
    k = s["k"]
    if k == "rec":
        return 'do vf crec with tag "%s" at %s' % (s["tag"], s["ctx"])
    if k == "poke":
        if s["op"] == "inc":
            return "inc %s with %s" % (ref_text(s["ref"], env), lit(s["val"]))
        return "put %s into %s" % (lit(s["val"]), ref_text(s["ref"], env))
    if k == "go":
        return "go %s if %s" % (s["far"], " and ".join(need_text(n, env) for n in s["needs"]))
    if k == "done":
        return "done me"
    if k == "goal":
        return "set %s with %s" % (s["clock"], lit(s["val"]))
    if k == "aux":
        if s.get("plain"):
            return "aux %s" % s["plain"]
        out = "aux %s as %s" % (s["moot"], s["as"])
        if s.get("via"):
            out += " via %s" % s["via"]
        return out
    if k == "rear":
        if mode != "q1" and mode != "q3":
            return None
        f = s["form"]
        out = "rear %s" % s["moot"]
        if f in ("full", "nobe"):
            out += " as mine"
        if f in ("full", "noas"):
            out += " be aux"
        return out + " in frame %s" % s["frame"]
    if k == "raze":
        if mode != "q1" and mode != "q3":
            return None
        out = "raze %s" % s["who"]
        if s["frame"]:
            out += " in frame %s" % ("me" if s.get("me") else s["frame"])
        return out
    raise ValueError(k)


def render_framer(fr, env, mode, lines, ind="  "):
    head = "framer %s be %s" % (fr["name"], fr["sched"])
    if fr["sched"] == "active" and fr.get("order"):
        head += " in %s" % fr["order"]
    if fr.get("first"):
        head += " first %s" % fr["first"]
    if fr.get("via") and env is None:
        head += " via %s" % fr["via"]
    lines.append(ind + head)
    for f in fr["frames"]:
        lines.append(ind * 2 + "frame %s" % f["name"] + (" in %s" % f["over"] if f.get("over") else ""))
        if f.get("under"):
            lines.append(ind * 3 + "under %s" % f["under"])
        cur = "native"
        for s in f["stmts"]:
            t = stmt_text(s, env, mode)
            if t is None:
                continue
            if s["k"] in ("poke", "done", "rear", "raze"):
                c = s.get("ctx") or "native"
                if c != cur:
                    lines.append(ind * 3 + c)
                    cur = c
            lines.append(ind * 3 + t)


def render_driver(case, lines, ind="  "):
    plan = {int(k): v for k, v in case["plan"].items()}
    ticks = case["ticks"]
    lines.append(ind + "framer drv be active in front")
    prev = 0
    ts = sorted(plan)
    for i, t in enumerate(ts):
        lines.append(ind * 2 + "frame d%d" % i)
        if i > 0:
            for sh, v in plan[ts[i - 1]]:
                lines.append(ind * 3 + "put %d into %s" % (v, sh))
        lines.append(ind * 3 + "repeat %d" % (t - prev))
        prev = t
    lines.append(ind * 2 + "frame dl")
    if ts:
        for sh, v in plan[ts[-1]]:
            lines.append(ind * 3 + "put %d into %s" % (v, sh))
    lines.append(ind * 3 + "repeat %d" % max(1, ticks - prev))
    lines.append(ind * 2 + "frame dfin")
    lines.append(ind * 3 + "bid stop all")


def render(case, mode="q1"):
    """mode q1: clones; q2: case must be the result of expand(); q3: result of solo_variant()"""
    lines = ["house h"]
    for sh, v in case["inits"]:
        lines.append("  init %s with %d" % (sh, v))
    render_driver(case, lines)
    for m in case["mains"]:
        render_framer(m, None, mode, lines)
    if mode in ("q1", "q3"):
        for m in case["moots"]:
            render_framer(m, None, mode, lines)
    for d in case.get("defs", []):
        render_framer(d, d.get("env"), mode, lines)
    return "\n".join(lines) + "\n"


# --------------------------------------------------------------------------- inode model (documented prepend rule)
def parse_via(via):
    """-> (kind, parts): kind abs | fme | rel"""
    if not via or via == "me":
        return ("rel", [])
    v = via.rstrip(".")
    if v.startswith("."):
        return ("abs", v[1:].split("."))
    parts = v.split(".")
    if parts[:2] == ["framer", "me"]:
        return ("fme", parts[2:])
    if parts[0] == "me":
        parts = parts[1:]
    return ("rel", parts)


def eff_inode(host_eff, own_via, moot_via):
    via = moot_via if own_via == "mine" else own_via
    kind, parts = parse_via(via)
    if kind in ("abs", "fme"):
        return (kind, parts)
    return (host_eff[0], host_eff[1] + parts)


def main_eff(main):
    kind, parts = parse_via(main.get("via"))
    return ("abs" if kind != "fme" else "fme", parts)


# --------------------------------------------------------------------------- Q2: hand expansion
def expand(case, reared):
    """reared: [(main framer name, frame name, moot name)] in the order the clones were reared in the Q1 run.
    Returns (case2, names) where names maps structural id -> stand-in framer name."""
    moots = {m["name"]: m for m in case["moots"]}
    defs = []
    names = {}
    counter = [0]

    def standin(mootname, hostname, hostframe, host_eff, own_via, sid):
        moot = moots[mootname]
        counter[0] += 1
        name = "s%d" % counter[0]
        names[sid] = name
        eff = eff_inode(host_eff, own_via, moot.get("via"))
        d = {"name": name, "sched": "aux", "via": None, "first": moot.get("first"), "moot": mootname,
             "env": {"hostframer": hostname, "hostframe": hostframe, "eff": eff}, "frames": []}
        defs.append(d)
        for f in moot["frames"]:
            nf = {"name": f["name"], "over": f.get("over"), "under": f.get("under"), "stmts": []}
            idx = 0
            for s in f["stmts"]:
                if s["k"] == "aux":
                    child = standin(s["moot"], name, f["name"], eff, s.get("via"), "%s/%s#%d" % (sid, f["name"], idx))
                    idx += 1
                    nf["stmts"].append({"k": "aux", "plain": child})
                else:
                    nf["stmts"].append(s)
            d["frames"].append(nf)
        return name

    mains = []
    for m in case["mains"]:
        meff = main_eff(m)
        nm = dict(m)
        nm["frames"] = []
        for f in m["frames"]:
            nf = {"name": f["name"], "over": f.get("over"), "under": f.get("under"), "stmts": []}
            idx = 0
            for s in f["stmts"]:
                if s["k"] == "aux":
                    child = standin(s["moot"], m["name"], f["name"], meff, s.get("via"),
                                    "%s/%s#%d" % (m["name"], f["name"], idx))
                    idx += 1
                    nf["stmts"].append({"k": "aux", "plain": child})
                else:
                    nf["stmts"].append(s)
            for r, (mn, fn, mootname) in enumerate(reared):
                if mn == m["name"] and fn == f["name"]:
                    child = standin(mootname, m["name"], f["name"], meff, "mine", "%s/%s@%d" % (m["name"], f["name"], r))
                    nf["stmts"].append({"k": "aux", "plain": child})
            nm["frames"].append(nf)
        mains.append(nm)
    c2 = dict(case)
    c2["mains"] = mains
    c2["defs"] = defs
    return c2, names


# --------------------------------------------------------------------------- Q3: the original itself as an ordinary aux
def solo_variant(case):
    """the moot `mz` (used once, only self-relative references) scheduled `be aux` and used directly"""
    if not case.get("solo"):
        return None
    c3 = copy.deepcopy(case)
    for m in c3["moots"]:
        if m["name"] == case["solo"]:
            m["sched"] = "aux"
    n = 0
    for m in c3["mains"]:
        for f in m["frames"]:
            for s in f["stmts"]:
                if s["k"] == "aux" and s.get("moot") == case["solo"]:
                    s["plain"] = case["solo"]
                    n += 1
    return c3 if n == 1 else None


# --------------------------------------------------------------------------- running
def run(case, mode, cap):
    from vf.flo import runner
    global OBS
    text = render(case, mode)
    obs = Observation(case, mode)
    OBS = obs
    try:
        res = runner.run_text(text, maxticks=cap, proxies=False, behaviors=["vf.flo.recorder", "vf.flo.clones"])
    finally:
        OBS = None
    obs.text = text
    obs.res = res
    # the house keeps framer objects alive; drop object references from what is returned to the judge lazily
    return obs
