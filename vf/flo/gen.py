"""Seeded random generator of FloScript programs (DESIGN 2.A).

A *driver* framer declared `in front` writes pre-planned values into the
condition shares .c0...c3 at pre-planned ticks and stops everything at the
planned end tick, so conditions flip at arbitrary ticks deterministically.

The generator never produces the corners listed in DESIGN Appendix A.9.
Features are selected per property through `feat` (probabilities / switches).
"""
from vf.flo import prog as P

DEFAULT = {
    "nframers": (1, 3),       # main framers
    "nframes": (2, 7),
    "maxdepth": 3,
    "p_nest": 0.55,
    "p_under": 0.25,
    "p_first": 0.3,
    "p_inactive": 0.0,
    "p_let": 0.0,
    "p_aux": 0.0,             # plain aux on a frame
    "p_condaux": 0.0,         # conditional aux clause on a frame
    "naux": (0, 0),           # aux framers available
    "p_shared_aux": 0.3,
    "p_aux_inherit": 0.0,
    "p_uncond_go": 0.08,
    "ngo": (0, 2),
    "p_pokes": 0.0,
    "p_bids": 0.0,
    "nslaves": (0, 0),
    "p_fiat": 0.0,
    "p_clock_need": 0.25,
    "p_done_need": 0.0,
    "p_done_main": 0.0,
    "p_recs_all_ctx": 1.0,
    "p_period": 0.0,
    "ticks": (8, 20),
    "nplan": (2, 6),
    "p_stop_bid_mid": 0.0,    # driver stops/aborts a framer mid-run
    "order": False,
    "benter_all": False,      # a benter recorder first in every frame (attempt log for C08)
    "mark_bids": False,       # a recorder right before every bid: tag "bid|ctl|who|framer"
    "p_bid_period": 0.0,
    "p_neg": 0.12,            # a written condition is negated (`if not ...`)
    "p_aux_let": 0.3,         # share of p_let that applies to the frames of an auxiliary framer
}

CSHARES = [".c0", ".c1", ".c2", ".c3"]
NSHARES = [".n0", ".n1"]
REC_CTX = ["enter", "exit", "renter", "rexit", "recur", "precur"]


def feat(**kw):
    f = dict(DEFAULT)
    f.update(kw)
    return f


def deepen(f):
    """wider bounds for the thorough tier: more framers, larger and deeper forests, more auxes, longer runs"""
    g = dict(f)
    g["nframers"] = (f["nframers"][0], f["nframers"][1] + 1)
    g["nframes"] = (f["nframes"][0] + 1, f["nframes"][1] + 4)
    g["maxdepth"] = f["maxdepth"] + 1
    g["ticks"] = (f["ticks"][0] + 4, f["ticks"][1] + 16)
    g["nplan"] = (f["nplan"][0] + 1, f["nplan"][1] + 5)
    if f["naux"][1]:
        g["naux"] = (f["naux"][0], f["naux"][1] + 2)
    if f["nslaves"][1]:
        g["nslaves"] = (f["nslaves"][0], f["nslaves"][1] + 1)
    g["ngo"] = (f["ngo"][0], f["ngo"][1] + 1)
    return g


def nfeats(feats, ctx):
    """feature-set indexes used by a tier: thorough also draws the deepened variant of every set"""
    return len(feats) if ctx.quick else 2 * len(feats)


def pickfeat(feats, fi):
    if fi < len(feats):
        return feat(**feats[fi])
    return deepen(feat(**feats[fi - len(feats)]))


def rint(rng, lohi):
    return rng.randint(lohi[0], lohi[1])


def gen_need(rng, f, allow_clock=True, framer_names=(), aux_ctx=None):
    r = rng.random()
    if allow_clock and r < f["p_clock_need"]:
        if rng.random() < 0.5:
            return P.cmp("recurred", ">=", rng.randint(1, 4))
        return P.cmp("elapsed", ">=", {"raw": repr(rng.choice([0.125, 0.25, 0.375, 0.5]))})
    sh = rng.choice(CSHARES)
    op = rng.choice(["==", "==", "!=", ">=", "<"])
    n = P.cmp(sh, op, rng.randint(0, 2))
    if rng.random() < f.get("p_neg", 0.12):
        n["neg"] = True
    return n


def gen_needs(rng, f, **kw):
    return [gen_need(rng, f, **kw) for _ in range(1 if rng.random() < 0.8 else 2)]


def gen_forest(rng, f, prefix, nframes):
    """returns list of frame dicts (parents declared before children)"""
    frames = []
    depth = {}
    for i in range(nframes):
        name = "%s%d" % (prefix, i)
        over = None
        cands = [x["name"] for x in frames if depth[x["name"]] < f["maxdepth"] - 1]
        if cands and rng.random() < f["p_nest"]:
            over = rng.choice(cands)
        depth[name] = 0 if over is None else depth[over] + 1
        frames.append(P.frame(name, [], over=over))
    # primary child overrides
    kids = {}
    for fr in frames:
        if fr["over"]:
            kids.setdefault(fr["over"], []).append(fr["name"])
    for fr in frames:
        ks = kids.get(fr["name"], [])
        if len(ks) > 1 and rng.random() < f["p_under"]:
            fr["under"] = rng.choice(ks[1:])
    return frames


def add_recs(rng, f, framer_name, fr, guarded):
    st = []
    base = "%s.%s" % (framer_name, fr["name"])
    if guarded or f.get("benter_all"):
        st.append(P.rec(base + ".benter", "benter"))
    for c in REC_CTX:
        if rng.random() < f["p_recs_all_ctx"]:
            st.append(P.rec(base + "." + c, c))
    return st


def gen_pokes(rng, f, base):
    out = []
    while rng.random() < f["p_pokes"] and len(out) < 2:
        ctx = rng.choice([None, "enter", "recur", "exit", "renter", "rexit", "precur"])
        k = rng.random()
        dst = rng.choice(NSHARES)
        if k < 0.4:
            out.append({"v": "inc", "dst": dst, "data": {"value": rng.randint(1, 3)}, "ctx": ctx})
        elif k < 0.6:
            out.append({"v": "put", "data": {"value": rng.randint(0, 5)}, "dst": dst, "ctx": ctx})
        elif k < 0.75:
            out.append({"v": "set", "dst": dst, "data": {"value": rng.randint(0, 5)}, "ctx": ctx})
        elif k < 0.9:
            out.append({"v": "copy", "src": rng.choice(CSHARES), "dst": dst, "ctx": ctx})
        else:
            out.append({"v": "inc", "dst": dst, "src": rng.choice(CSHARES), "ctx": ctx})
    return out


def gen_framer(rng, f, name, sched, auxnames, others, slaves, is_aux=False, condpool=None):
    """condpool: list of aux names reserved for conditional-aux clauses (each used at most once in the
    whole program and never as a plain aux: sharing one original between clauses is an undocumented corner)"""
    condpool = condpool if condpool is not None else []
    nfr = rint(rng, f["nframes"]) if not is_aux else rng.randint(1, 3)
    frames = gen_forest(rng, f, "f" if not is_aux else "x", nfr)
    names = [x["name"] for x in frames]
    used_aux = set()
    plain = {}
    for fr in frames:     # pass 1: which frames carry which plain auxes
        plain[fr["name"]] = []
        if auxnames and not is_aux and rng.random() < f["p_aux"]:
            for a in rng.sample(auxnames, rng.randint(1, min(2, len(auxnames)))):
                if a in used_aux and rng.random() > f["p_shared_aux"]:
                    continue
                used_aux.add(a)
                plain[fr["name"]].append(a)
    if f.get("p_aux_inherit"):
        # a frame names an original aux that one of its ancestors names too: entering it under that ancestor must be
        # refused while the ancestor owns the aux, whether the ancestor is entered by the same transition or stays entered
        byname = {x["name"]: x for x in frames}
        for fr in frames:
            o = fr.get("over")
            while o:
                for a in plain[o]:
                    if a not in plain[fr["name"]] and rng.random() < f["p_aux_inherit"]:
                        plain[fr["name"]].append(a)
                o = byname[o].get("over")
    framer_auxes = sorted(used_aux)
    for fr in frames:
        guarded = (not is_aux or rng.random() < f.get("p_aux_let", 0.3)) and rng.random() < f["p_let"]
        st = add_recs(rng, f, name, fr, guarded)
        if guarded:     # the benter recorder comes first so that every *attempt* is logged
            st.insert(1, {"v": "let", "needs": [gen_need(rng, f, allow_clock=False)]})
        st += gen_pokes(rng, f, name)
        for a in plain[fr["name"]]:
            st.append({"v": "aux", "aux": a})
        # precur clauses: go's and conditional aux in random positions
        clauses = []
        for _ in range(rint(rng, f["ngo"])):
            far = rng.choice(names + ["next", "me"] if rng.random() < 0.85 else ["next"])
            if far == "next" and fr["name"] == names[-1]:
                far = rng.choice(names)
            needs = [] if rng.random() < f["p_uncond_go"] else gen_needs(rng, f)
            if f["p_done_need"] and rng.random() < f["p_done_need"]:
                if is_aux:
                    pass
                elif framer_auxes:
                    which = rng.choice(["any", "all"] + framer_auxes)
                    needs = [{"n": "auxdone", "which": which, "frame": rng.choice([None, "me!"] + names[:2]) if which in ("any", "all") else None,
                              "neg": False}]
                    if needs[0]["frame"] is None:
                        needs[0]["frame"] = "me!"
            clauses.append(P.go(far, needs))
        if condpool and not is_aux and rng.random() < f["p_condaux"]:
            a = condpool.pop()
            clauses.insert(rng.randint(0, len(clauses)),
                           {"v": "aux", "aux": a, "needs": [gen_need(rng, f, allow_clock=False)]})
        st += clauses
        # bids
        if others and rng.random() < f["p_bids"]:
            ctl = rng.choice(["stop", "start", "run", "abort", "ready", "stop", "start"])
            who = rng.choice(others + ["me"])
            bctx = rng.choice([None, "enter", "exit", "recur"])
            nb = 2 if rng.random() < 0.3 else 1       # sometimes two bids in a row: the last one wins
            for _ in range(nb):
                at = None
                if f["p_bid_period"] and ctl in ("start", "run", "ready") and rng.random() < f["p_bid_period"]:
                    at = rng.choice(["0", "0.125", "0.25", "0.375", "0.5"])     # `bid start x at 0.25`: the target's new period
                if f["mark_bids"]:
                    st.append(P.rec("bid|%s|%s|%s" % (ctl, who, name) + ("|%s" % at if at else ""), bctx or "enter"))
                b = {"v": "bid", "ctl": ctl, "who": [who], "ctx": bctx}
                if at:
                    b["at"] = at
                st.append(b)
                ctl = rng.choice(["stop", "start", "run", "abort", "ready"])
        if slaves and rng.random() < f["p_fiat"]:
            st.append({"v": rng.choice(["ready", "start", "run", "stop", "abort"]), "who": rng.choice(slaves), "ctx": None})
        fr["stmts"] = st
    if is_aux:
        # completion: `done me` somewhere (or never)
        r = rng.random()
        if r < 0.75:
            fr = rng.choice(frames)
            fr["stmts"].insert(len([s for s in fr["stmts"] if s["v"] in ("let",)]),
                               {"v": "done", "who": ["me"], "ctx": rng.choice([None, "recur", "enter"])})
    elif f.get("p_done_main") and rng.random() < f["p_done_main"]:
        # a scheduled framer may report completion with `done me` too: it keeps running with its frames entered
        fr = rng.choice(frames)
        fr["stmts"].insert(len([s for s in fr["stmts"] if s["v"] in ("let",)]),
                           {"v": "done", "who": ["me"], "ctx": rng.choice([None, "recur", "enter"])})
    first = rng.choice(names) if rng.random() < f["p_first"] else None
    period = None
    if f["p_period"] and rng.random() < f["p_period"]:
        period = rng.choice(["0.125", "0.25", "0.375"])
    order = rng.choice(["front", "mid", "back"]) if f["order"] and rng.random() < 0.5 else None
    return P.framer(name, frames, sched=sched, first=first, period=period, order=order)


def gen_program(rng, f):
    ticks = rint(rng, f["ticks"])
    nm = rint(rng, f["nframers"])
    na = rint(rng, f["naux"])
    ns = rint(rng, f["nslaves"])
    auxnames = ["a%d" % i for i in range(na)]
    mains = ["m%d" % i for i in range(nm)]
    slaves = ["s%d" % i for i in range(ns)]
    framers = []
    condpool = []
    plainaux = list(auxnames)
    if f["p_condaux"] and auxnames:
        ncond = max(1, int(round(len(auxnames) * (0.5 if f["p_aux"] else 1.0))))
        condpool = auxnames[:ncond]
        plainaux = auxnames[ncond:]
        rng.shuffle(condpool)
    for i, m in enumerate(mains):
        sched = "inactive" if rng.random() < f["p_inactive"] else "active"
        framers.append(gen_framer(rng, f, m, sched, plainaux, [x for x in mains if x != m], slaves, condpool=condpool))
    for s in slaves:
        fs = dict(f)
        fs.update(p_aux=0, p_condaux=0, p_bids=0, p_fiat=0)
        framers.append(gen_framer(rng, fs, s, "slave", [], [], []))
    for a in auxnames:
        fa = dict(f)
        fa.update(p_aux=0, p_condaux=0, p_bids=0, p_fiat=0, p_let=f["p_let"] * 0.5)
        framers.append(gen_framer(rng, fa, a, "aux", [], [], [], is_aux=True))
    # driver plan
    plan = {}
    for _ in range(rint(rng, f["nplan"])):
        t = rng.randint(1, max(1, ticks - 2))
        plan.setdefault(t, []).append((rng.choice(CSHARES), rng.randint(0, 2)))
    midbid = None
    if f["p_stop_bid_mid"] and rng.random() < f["p_stop_bid_mid"]:
        midbid = (rng.randint(1, max(1, ticks - 2)), rng.choice(["stop", "abort", "stop", "start"]), rng.choice(mains))
        plan.setdefault(midbid[0], [])
    dframes = []
    prev = 0
    for i, t in enumerate(sorted(plan)):
        # frame d<i> is entered at tick `prev`; leaves when recurred >= t - prev
        st = []
        if i > 0:
            pt = sorted(plan)[i - 1]
            for sh, v in plan[pt]:
                st.append({"v": "put", "data": {"value": v}, "dst": sh, "ctx": None})
            if midbid and midbid[0] == pt:
                if f["mark_bids"]:
                    st.append(P.rec("bid|%s|%s|drv" % (midbid[1], midbid[2]), "enter"))
                st.append({"v": "bid", "ctl": midbid[1], "who": [midbid[2]], "ctx": None})
        st.append({"v": "repeat", "n": t - prev})
        dframes.append(P.frame("d%d" % i, st))
        prev = t
    st = []
    if plan:
        pt = sorted(plan)[-1]
        for sh, v in plan[pt]:
            st.append({"v": "put", "data": {"value": v}, "dst": sh, "ctx": None})
        if midbid and midbid[0] == pt:
            if f["mark_bids"]:
                st.append(P.rec("bid|%s|%s|drv" % (midbid[1], midbid[2]), "enter"))
            st.append({"v": "bid", "ctl": midbid[1], "who": [midbid[2]], "ctx": None})
    st.append({"v": "repeat", "n": max(1, ticks - prev)})
    dframes.append(P.frame("dl", st))
    dframes.append(P.frame("dfin", ([P.rec("bid|stop|all|drv", "enter")] if f["mark_bids"] else []) +
                           [{"v": "bid", "ctl": "stop", "who": ["all"], "ctx": None}]))
    drv = P.framer("drv", dframes, sched="active", order="front")
    inits = [[sh, {"value": rng.randint(0, 2)}] for sh in CSHARES] + [[sh, {"value": 0}] for sh in NSHARES]
    prog = P.program([P.house("h", [drv] + framers, inits=inits)], period="0.125")
    prog["ticks"] = ticks
    prog["plan"] = {str(k): v for k, v in plan.items()}
    return prog


WATCH = CSHARES + NSHARES


def nested_condaux_program(rng):
    """Targeted family: one framer with a chain f0 > f1 > f2 (> f3), conditional auxes on two or three frames of the
    chain whose conditions the driver turns on at planned ticks (lower ones first) and that complete after planned
    numbers of runs, so that an upper conditional aux starts -- and often completes -- while a lower one is still
    running (nested suspension)."""
    depth = rng.choice([3, 3, 4])
    ticks = rng.randint(16, 24)
    hosts = sorted(rng.sample(range(depth - 1), rng.choice([2, 2, min(3, depth - 1)])))     # frames carrying a cond aux
    frames = []
    for i in range(depth):
        name = "f%d" % i
        st = [P.rec("m0.%s.%s" % (name, c), c) for c in REC_CTX]
        frames.append(P.frame(name, st, over=("f%d" % (i - 1)) if i else None))
    auxes = []
    plan = {}
    starts = sorted(rng.sample(range(2, ticks - 6), len(hosts)), reverse=True)    # lower hosts start earlier
    for j, h in enumerate(sorted(hosts, reverse=True)):         # deepest host first
        a = "a%d" % j
        share = CSHARES[j]
        frames[h]["stmts"].append({"v": "aux", "aux": a, "needs": [P.cmp(share, "==", 1)]})
        plan.setdefault(starts[len(hosts) - 1 - j] if False else sorted(starts)[j], []).append((share, 1))
        runs = rng.randint(2, 9)
        ax = [P.frame("x0", [P.rec("%s.x0.%s" % (a, c), c) for c in REC_CTX] + [P.go("x1", [P.cmp("recurred", ">=", runs)])]),
              P.frame("x1", [{"v": "done", "who": ["me"], "ctx": None}] + [P.rec("%s.x1.%s" % (a, c), c) for c in REC_CTX])]
        auxes.append(P.framer(a, ax, sched="aux"))
    # driver
    dframes, prev = [], 0
    for i, t in enumerate(sorted(plan)):
        st = []
        if i > 0:
            for sh, v in plan[sorted(plan)[i - 1]]:
                st.append({"v": "put", "data": {"value": v}, "dst": sh, "ctx": None})
        st.append({"v": "repeat", "n": t - prev})
        dframes.append(P.frame("d%d" % i, st))
        prev = t
    st = [{"v": "put", "data": {"value": v}, "dst": sh, "ctx": None} for sh, v in plan[sorted(plan)[-1]]]
    # later the conditions are switched off again so that completed auxes are not restarted at once
    st.append({"v": "repeat", "n": 1})
    dframes.append(P.frame("dl", st))
    dframes.append(P.frame("doff", [{"v": "put", "data": {"value": 0}, "dst": sh, "ctx": None} for sh in CSHARES[:len(hosts)]] +
                           [{"v": "repeat", "n": max(1, ticks - prev - 1)}]))
    dframes.append(P.frame("dfin", [{"v": "bid", "ctl": "stop", "who": ["all"], "ctx": None}]))
    drv = P.framer("drv", dframes, sched="active", order="front")
    inits = [[sh, {"value": 0}] for sh in CSHARES] + [[sh, {"value": 0}] for sh in NSHARES]
    prog = P.program([P.house("h", [drv, P.framer("m0", frames)] + auxes, inits=inits)], period="0.125")
    prog["ticks"] = ticks + 2
    prog["plan"] = {str(k): v for k, v in plan.items()}
    return prog


def shared_condaux_program(rng):
    """Targeted family: ONE original aux framer is the conditional aux of two sibling frames (never in the same outline):
    it runs under the first, the framer moves to the sibling while it is still running (the main frame's exit forces it
    out) or after it completed, and the sibling's condition must then be able to start it again."""
    ticks = rng.randint(16, 26)
    nkids = rng.choice([2, 2, 3])
    runs = rng.randint(2, 7)
    frames = [P.frame("f0", [P.rec("m0.f0.%s" % c, c) for c in REC_CTX])]
    for i in range(1, nkids + 1):
        name = "f%d" % i
        nxt = "f%d" % (i % nkids + 1)
        st = [P.rec("m0.%s.%s" % (name, c), c) for c in REC_CTX]
        clauses = [P.go(nxt, [P.cmp(".c3", "==", i)]), {"v": "aux", "aux": "a0", "needs": [P.cmp(".c0", "==", 1)]}]
        if rng.random() < 0.5:
            clauses.reverse()
        frames.append(P.frame(name, st + clauses, over="f0"))
    if rng.random() < 0.5:          # a frame below each sibling so that something is suspended
        for i in range(1, nkids + 1):
            frames.append(P.frame("g%d" % i, [P.rec("m0.g%d.%s" % (i, c), c) for c in REC_CTX], over="f%d" % i))
    ax = [P.frame("x0", [P.rec("a0.x0.%s" % c, c) for c in REC_CTX] + [P.go("x1", [P.cmp("recurred", ">=", runs)])]),
          P.frame("x1", [{"v": "done", "who": ["me"], "ctx": None}] + [P.rec("a0.x1.%s" % c, c) for c in REC_CTX])]
    # driver: condition on at t0; move to the next sibling at t1 (.c3 = index of the frame to leave); later again
    plan = {}
    t = rng.randint(1, 3)
    plan.setdefault(t, []).append((".c0", 1))
    cur = 1
    for _ in range(rng.randint(1, 3)):
        t += rng.randint(1, 6)
        if t >= ticks - 3:
            break
        plan.setdefault(t, []).append((".c3", cur))
        cur = cur % nkids + 1
        if rng.random() < 0.3:
            t += rng.randint(1, 3)
            plan.setdefault(t, []).append((".c0", rng.choice([0, 1])))
    dframes, prev = [], 0
    keys = sorted(plan)
    for i, tt in enumerate(keys):
        st = []
        if i > 0:
            for sh, v in plan[keys[i - 1]]:
                st.append({"v": "put", "data": {"value": v}, "dst": sh, "ctx": None})
        st.append({"v": "repeat", "n": tt - prev})
        dframes.append(P.frame("d%d" % i, st))
        prev = tt
    st = [{"v": "put", "data": {"value": v}, "dst": sh, "ctx": None} for sh, v in plan[keys[-1]]]
    st.append({"v": "repeat", "n": max(1, ticks - prev)})
    dframes.append(P.frame("dl", st))
    dframes.append(P.frame("dfin", [{"v": "bid", "ctl": "stop", "who": ["all"], "ctx": None}]))
    drv = P.framer("drv", dframes, sched="active", order="front")
    inits = [[sh, {"value": 0}] for sh in CSHARES] + [[sh, {"value": 0}] for sh in NSHARES]
    prog = P.program([P.house("h", [drv, P.framer("m0", frames, first="f1"), P.framer("a0", ax, sched="aux")], inits=inits)],
                     period="0.125")
    prog["ticks"] = ticks + 2
    prog["plan"] = {str(k): v for k, v in plan.items()}
    return prog


def cloneify(prog, rng, p=0.75):
    """Metamorphic variant of a generated program: an auxiliary framer that exactly one plain `aux` statement of the whole
    program names (and no `done` condition names) is declared `be moot` instead and that statement clones it, `as <tag>`
    or `as mine`.  A clone hosted by one frame is its own framer object built by Framer.clone / Frame.clone / Act.clone;
    everything the program can observe of it must be what the original framer would do as the plain aux of that frame.
    Returns (program, alias) with alias = {name of the clone framer: name of the framer it stands for}."""
    import copy
    prog2 = copy.deepcopy(prog)
    house = prog2["houses"][0]
    sites, named = {}, set()

    def walk_needs(needs):
        for n in needs or []:
            if n.get("n") == "auxdone" and n.get("which") not in ("any", "all"):
                named.add(n["which"])
    for fr in house["framers"]:
        for frame in fr["frames"]:
            for s in frame["stmts"]:
                if s["v"] == "aux":
                    sites.setdefault(s["aux"], []).append((fr, frame, s))
                walk_needs(s.get("needs"))
    alias = {}
    k = 0
    for fr in house["framers"]:
        if fr["sched"] != "aux" or fr["name"] in named:
            continue
        at = sites.get(fr["name"], [])
        if len(at) != 1 or at[0][2].get("needs") or rng.random() > p:
            continue
        host, frame, s = at[0]
        fr["sched"] = "moot"
        if rng.random() < 0.5:
            tag = "k%d" % k
            k += 1
            s["as"] = tag
        else:
            s["as"] = "mine"
            tag = fr["name"] + "1"          # Framer.newMootTag: the first insular clone of `a0` in a host is tagged a01
        alias["%s_%s" % (host["name"], tag)] = fr["name"]
    return prog2, alias



def shuffle_frames(prog, rng):
    """the same frames declared in another order (children before their parents, the frame that carries `under x` after x):
    a different but legal program -- the first frame and every lexical successor are written out
    (`first`, `next`), the order of the children follows the declaration order, which the static model (prog.Static) reads
    from the AST as well.  Returns None when nothing could move."""
    import copy
    p2 = copy.deepcopy(prog)
    moved = False
    for h in p2["houses"]:
        for fr in h["framers"]:
            if len(fr["frames"]) < 2:
                continue
            if not fr.get("first"):
                fr["first"] = fr["frames"][0]["name"]
            # a frame with several children names its primary child (`under x`): without the clause the primary child is
            # the child that is attached first when the over links are resolved, which for children declared before
            # their parents is not a documented order (corner avoided, Appendix A.9)
            kids = {}
            for f in fr["frames"]:
                if f.get("over"):
                    kids.setdefault(f["over"], []).append(f["name"])
            for f in fr["frames"]:
                if len(kids.get(f["name"], [])) > 1 and not f.get("under"):
                    f["under"] = kids[f["name"]][0]
            # the lexical successor of every frame is written out (`next x`); the last frame, which has none, stays last
            for i, f in enumerate(fr["frames"][:-1]):
                if not f.get("next"):
                    f["next"] = fr["frames"][i + 1]["name"]
            order = list(fr["frames"][:-1])
            for _ in range(4):
                rng.shuffle(order)
                if [f["name"] for f in order] != [f["name"] for f in fr["frames"][:-1]]:
                    break
            order.append(fr["frames"][-1])
            if [f["name"] for f in order] != [f["name"] for f in fr["frames"]]:
                moved = True
            fr["frames"] = order
    return p2 if moved else None
