"""Narrow trace monitors (DESIGN 2.A): automata / invariants over the recorded
trace and snapshots that use only the AST's static structure -- independent of
the reference interpreter.

All take (ctx, prog, res) where res is a vf.flo.runner.Result produced with
post=True (snapshot of every framer after every top-level send).
"""
from vf.flo import prog as P

RUNNINGS = ("started", "running")


class Info(object):
    """static facts about a program"""

    def __init__(self, prog):
        self.prog = prog
        self.S = P.statics(prog)
        self.sched = {}
        self.plain = {}      # (framer, frame) -> [aux names]
        self.cond = {}       # (framer, frame) -> [aux names]
        self.guarded = {}    # (framer, frame) -> [let needs]
        self.recorded = set()  # framers whose every frame records enter, exit, renter and rexit
        for h in prog["houses"]:
            for fr in h["framers"]:
                self.sched[fr["name"]] = fr["sched"]
                if all(set(["enter", "exit", "renter", "rexit"]) <= set(s.get("ctx") for s in f["stmts"] if s["v"] == "rec")
                       for f in fr["frames"]):
                    self.recorded.add(fr["name"])
                for f in fr["frames"]:
                    key = (fr["name"], f["name"])
                    self.plain[key] = [s["aux"] for s in f["stmts"] if s["v"] == "aux" and not s.get("needs")]
                    self.cond[key] = [s["aux"] for s in f["stmts"] if s["v"] == "aux" and s.get("needs")]
                    self.guarded[key] = [n for s in f["stmts"] if s["v"] == "let" for n in s["needs"]]


def is_active(snap):
    return bool(snap["actives"]) or snap["status"] in RUNNINGS


def expected_actives(info, name, snaps):
    """(expected active list, truncating (main frame, aux) or None) for framer `name` from the AST and the
    observed active frame / conditional-aux running state in snapshot `snaps`"""
    sn = snaps[name]
    S = info.S[name]
    if not sn["active"]:
        return [], None
    full = S.outline(sn["active"])
    for i, fname in enumerate(full):
        for a in info.cond.get((name, fname), []):
            asn = snaps.get(a)
            if asn and not asn["done"] and asn["actives"] and asn["main"] == [name, fname]:
                return full[:i + 1], (fname, a)
    return full, None


def outline_monitor(ctx, info, res, where="post"):
    """C05: after every framer run the active frames are the outline of the active frame, cut at the main
    frame of a running conditional aux; stopped/aborted framers have none."""
    snaps_list = []
    for s in res.sends:
        if s.get("post"):
            snaps_list.append(("send %s@tick%d" % (s["tasker"], s["tick"]), s["post"], s))
    for t in res.ticks[1:]:
        snaps_list.append(("tick-end %d" % t["tick"], t["framers"], None))
    if res.presweep:
        snaps_list.append(("pre-sweep", res.presweep["framers"], None))
    snaps_list.append(("final", res.final["framers"], None))
    prev_act = {}
    cut_seen = {}       # (framer, main frame, aux) -> truncation observed since this activation
    for label, snaps, send in snaps_list:
        for name, sn in snaps.items():
            if name not in info.S:
                continue
            ctx.event()
            sched = info.sched[name]
            running = sn["status"] in RUNNINGS if sched in ("active", "inactive", "slave") else bool(sn["actives"])
            if sched in ("active", "inactive", "slave") and not running:
                ctx.hit("stopped_checked")
                ctx.check(sn["actives"] == [], "stopped-framer-has-active-frames",
                          "%s: framer %s is %s but has active frames %s" % (label, name, sn["status"], sn["actives"]),
                          lambda: {"where": label, "framer": name, "snapshot": sn})
                continue
            if not running:
                continue
            exp, trunc = expected_actives(info, name, snaps)
            if trunc:
                ctx.hit("truncated_outline_checked")
            else:
                ctx.hit("full_outline_checked")
            if len(exp) >= 3:
                ctx.hit("depth3_outline")
            key = "active-frames-not-outline" if not trunc else "active-frames-not-cut-at-conditional-aux-main"
            for ck in [k for k in cut_seen if k[0] == name and (not trunc or k[1:] != trunc)]:
                asn = snaps.get(ck[2])
                if not (asn and not asn["done"] and asn["actives"] and asn["main"] == [name, ck[1]]):
                    del cut_seen[ck]          # that activation is over
            if trunc and sn["actives"] == exp:
                cut_seen[(name,) + trunc] = True
            elif trunc and cut_seen.get((name,) + trunc) and sn["actives"] == info.S[name].outline(sn["active"]):
                # the cut was in place for this activation and was lost later: Framer.activate()/reactivate()
                # (a transition that keeps the main frame, or an upper conditional aux completing) restored the
                # full outline while this conditional aux is still running
                key = "conditional-aux-truncation-lost-after-reactivation"
                ctx.hit("known_truncation_lost")
            ok = ctx.check(sn["actives"] == exp, key,
                           "%s: framer %s active frame %s: active frames %s, expected %s%s" % (
                               label, name, sn["active"], sn["actives"], exp,
                               " (cut at %s while aux %s runs)" % trunc if trunc else ""),
                           lambda: {"where": label, "framer": name, "snapshot": sn,
                                    "auxes": {a: snaps.get(a) for a in sum(info.cond.values(), [])}})
            S = info.S[name]
            hum = S.head_human(trunc[0]) if trunc else S.human(sn["active"])
            if ok:
                ctx.check(sn["humanShr"] == hum and sn["activeShr"] == sn["active"], "state-shares-not-outline",
                          "%s: framer %s state shares human=%r active=%r, expected %r / %r" % (
                              label, name, sn["humanShr"], sn["activeShr"], hum, sn["active"]),
                          lambda: {"where": label, "framer": name, "snapshot": sn})
            if prev_act.get(name) != (tuple(sn["actives"])):
                ctx.hit("outline_changes")
                if trunc:
                    ctx.hit("truncations")
                elif prev_act.get(name) and len(prev_act[name]) < len(sn["actives"]) and \
                        list(prev_act[name]) == sn["actives"][:len(prev_act[name])]:
                    ctx.hit("resumptions")
                prev_act[name] = tuple(sn["actives"])


def bracket_monitor(ctx, info, res, ignore=()):
    """C06 (a): enter/exit alternate per frame; at every tick boundary the entered-not-exited frames are
    exactly the full outlines of running framers and of their active auxiliaries."""
    inside = {}          # (framer, frame) -> bool
    bounds = {}
    for t in res.ticks[1:]:
        bounds.setdefault(t["seq"], []).append(("tick-end %d" % t["tick"], t["framers"]))
    bounds.setdefault(len(res.trace), []).append(("final", res.final["framers"]))

    def check_boundary(label, snaps):
        exp = set()
        for name, sn in snaps.items():
            if name not in info.recorded:
                continue
            sched = info.sched[name]
            running = sn["status"] in RUNNINGS if sched in ("active", "inactive", "slave") else bool(sn["actives"])
            if running and sn["active"]:
                for f in info.S[name].outline(sn["active"]):
                    exp.add((name, f))
        got = set(k for k, v in inside.items() if v)
        if ignore:
            ign = set(ignore)
            for name, sn in snaps.items():
                if sn.get("main") and sn["main"][0] in ign:
                    ign.add(name)
            exp = set(k for k in exp if k[0] not in ign)
            got = set(k for k in got if k[0] not in ign)
        ctx.hit("boundaries_checked")
        if exp != got:
            miss = sorted(exp - got)
            extra = sorted(got - exp)
            key = "entered-frames-not-full-outlines/" + ("left-entered" if extra else "not-entered")
            ctx.fail(key, "%s: entered-but-not-exited frames differ from the full outlines of running framers: "
                          "left entered %s, not entered %s" % (label, extra, miss),
                     {"where": label, "left_entered": extra, "missing": miss})
        else:
            ctx.check(True, "ok")

    for i, e in enumerate(res.trace):
        for label, snaps in bounds.get(i, []):
            check_boundary(label, snaps)
        ctx.event()
        k = (e["framer"], e["frame"])
        if e["ctx"] == "enter":
            ctx.check(not inside.get(k), "enter-while-entered",
                      "frame %s.%s entered twice without an exit (event %d, tick %d)" % (k[0], k[1], i, e["tick"]),
                      lambda: {"event": e, "index": i, "before": res.trace[max(0, i - 6):i]})
            inside[k] = True
        elif e["ctx"] == "exit":
            ctx.check(bool(inside.get(k)), "exit-while-not-entered",
                      "frame %s.%s exited while not entered (event %d, tick %d)" % (k[0], k[1], i, e["tick"]),
                      lambda: {"event": e, "index": i, "before": res.trace[max(0, i - 6):i]})
            inside[k] = False
    for label, snaps in bounds.get(len(res.trace), []):
        check_boundary(label, snaps)


def transition_order_monitor(ctx, info, res):
    """C06 (b): for every run of a scheduled or slave framer, its own enter/exit/renter/rexit events are
    exactly: exits bottom-up from the outline-difference point, rexits bottom-up and renters top-down of the
    shared ancestors, enters top-down of the rest of the target outline; stop/abort exits bottom-up."""
    prev = {}
    for s in res.sends:
        name = s["tasker"]
        if name not in info.recorded or "seq_end" not in s:
            continue
        S = info.S[name]
        evs = [e for e in res.trace[s["seq"]:s["seq_end"]] if e["framer"] == name
               and e["ctx"] in ("enter", "exit", "renter", "rexit")]
        before = prev.get(name, {"status": "stopped", "active": None})
        if not s.get("selfpost"):
            continue
        after = {"status": s["selfpost"]["status"], "active": s["selfpost"]["active"]}
        got = [(e["ctx"], e["frame"]) for e in evs]
        bstat, bact = before["status"], before["active"]
        astat, aact = after["status"], after["active"]
        exp = None
        kind = None
        if bstat in RUNNINGS and astat in RUNNINGS:
            if got or bact != aact:
                ex, en, rx = S.exen(S.outline(bact), aact)
                exp = [("exit", f) for f in reversed(ex)] + [("rexit", f) for f in reversed(rx)] + \
                      [("renter", f) for f in rx] + [("enter", f) for f in en]
                if aact == bact:
                    kind = "self"
                elif aact in S.head(bact):
                    kind = "ancestor"
                elif bact in S.head(aact):
                    kind = "descendant"
                elif S.head(aact)[0] == S.head(bact)[0]:
                    kind = "same_tree"
                else:
                    kind = "other_tree"
            else:
                exp = []
        elif bstat not in RUNNINGS and astat in RUNNINGS:
            exp = [("enter", f) for f in S.outline(aact)] if aact else None
            kind = "start"
        elif bstat in RUNNINGS and astat not in RUNNINGS:
            exp = [("exit", f) for f in reversed(S.outline(bact))]
            kind = "stop_abort"
        else:
            exp = []
        prev[name] = after
        if exp is None:
            continue
        if kind:
            ctx.hit("trans_" + kind)
        ctx.check(got == exp, "transition-action-order" + ("/" + kind if kind else "/none"),
                  "framer %s tick %d (%s -> %s): enter/exit/renter/rexit events %s, expected %s" % (
                      name, s["tick"], bact, aact, got, exp),
                  lambda: {"framer": name, "tick": s["tick"], "from": bact, "to": aact, "observed": got, "expected": exp})
