"""Narrow trace monitors (DESIGN 2.A): automata / invariants over the recorded
trace and snapshots that use only the AST's static structure -- independent of
the reference interpreter.

All take (ctx, prog, res) where res is a vf.flo.runner.Result produced with
post=True (snapshot of every framer after every top-level send).
"""
from vf.flo import prog as P

RUNNINGS = ("started", "running")


class Info(object):
    """static facts about a program"""

    def __init__(self, prog):
        self.prog = prog
        self.S = P.statics(prog)
        self.sched = {}
        self.plain = {}      # (framer, frame) -> [aux names]
        self.cond = {}       # (framer, frame) -> [aux names]
        self.guarded = {}    # (framer, frame) -> [let needs]
        self.recorded = set()  # framers whose every frame records enter, exit, renter and rexit
        for h in prog["houses"]:
            for fr in h["framers"]:
                self.sched[fr["name"]] = fr["sched"]
                if all(set(["enter", "exit", "renter", "rexit"]) <= set(s.get("ctx") for s in f["stmts"] if s["v"] == "rec")
                       for f in fr["frames"]):
                    self.recorded.add(fr["name"])
                for f in fr["frames"]:
                    key = (fr["name"], f["name"])
                    self.plain[key] = [s["aux"] for s in f["stmts"] if s["v"] == "aux" and not s.get("needs")]
                    self.cond[key] = [s["aux"] for s in f["stmts"] if s["v"] == "aux" and s.get("needs")]
                    self.guarded[key] = [n for s in f["stmts"] if s["v"] == "let" for n in s["needs"]]


def is_active(snap):
    return bool(snap["actives"]) or snap["status"] in RUNNINGS


def expected_actives(info, name, snaps):
    """(expected active list, truncating (main frame, aux) or None) for framer `name` from the AST and the
    observed active frame / conditional-aux running state in snapshot `snaps`"""
    sn = snaps[name]
    S = info.S[name]
    if not sn["active"]:
        return [], None
    full = S.outline(sn["active"])
    for i, fname in enumerate(full):
        for a in info.cond.get((name, fname), []):
            asn = snaps.get(a)
            if asn and not asn["done"] and asn["actives"] and asn["main"] == [name, fname]:
                return full[:i + 1], (fname, a)
    return full, None


def outline_monitor(ctx, info, res, where="post"):
    """C05: after every framer run the active frames are the outline of the active frame, cut at the main
    frame of a running conditional aux; stopped/aborted framers have none."""
    snaps_list = []
    for s in res.sends:
        if s.get("post"):
            snaps_list.append(("send %s@tick%d" % (s["tasker"], s["tick"]), s["post"], s))
    for t in res.ticks[1:]:
        snaps_list.append(("tick-end %d" % t["tick"], t["framers"], None))
    if res.presweep:
        snaps_list.append(("pre-sweep", res.presweep["framers"], None))
    snaps_list.append(("final", res.final["framers"], None))
    prev_act = {}
    cut_seen = {}       # (framer, main frame, aux) -> truncation observed since this activation
    for label, snaps, send in snaps_list:
        for name, sn in snaps.items():
            if name not in info.S:
                continue
            ctx.event()
            sched = info.sched[name]
            running = sn["status"] in RUNNINGS if sched in ("active", "inactive", "slave") else bool(sn["actives"])
            if sched in ("active", "inactive", "slave") and not running:
                ctx.hit("stopped_checked")
                ctx.check(sn["actives"] == [], "stopped-framer-has-active-frames",
                          "%s: framer %s is %s but has active frames %s" % (label, name, sn["status"], sn["actives"]),
                          lambda: {"where": label, "framer": name, "snapshot": sn})
                continue
            if not running:
                continue
            exp, trunc = expected_actives(info, name, snaps)
            if trunc:
                ctx.hit("truncated_outline_checked")
                # another conditional aux further down the same outline is running too (nested suspension)
                full = info.S[name].outline(sn["active"])
                for fname in full[full.index(trunc[0]) + 1:]:
                    for a in info.cond.get((name, fname), []):
                        asn = snaps.get(a)
                        if asn and not asn["done"] and asn["actives"] and asn["main"] == [name, fname]:
                            ctx.hit("nested_running_conditional_auxes")
            else:
                ctx.hit("full_outline_checked")
            if len(exp) >= 3:
                ctx.hit("depth3_outline")
            key = "active-frames-not-outline" if not trunc else "active-frames-not-cut-at-conditional-aux-main"
            for ck in [k for k in cut_seen if k[0] == name and (not trunc or k[1:] != trunc)]:
                asn = snaps.get(ck[2])
                if not (asn and not asn["done"] and asn["actives"] and asn["main"] == [name, ck[1]]):
                    del cut_seen[ck]          # that activation is over
            if trunc and sn["actives"] == exp:
                cut_seen[(name,) + trunc] = True
            elif trunc and cut_seen.get((name,) + trunc) and sn["actives"] == info.S[name].outline(sn["active"]):
                # the cut was in place for this activation and was lost later: Framer.activate()/reactivate()
                # (a transition that keeps the main frame, or an upper conditional aux completing) restored the
                # full outline while this conditional aux is still running
                key = "conditional-aux-truncation-lost-after-reactivation"
                ctx.hit("known_truncation_lost")
            ok = ctx.check(sn["actives"] == exp, key,
                           "%s: framer %s active frame %s: active frames %s, expected %s%s" % (
                               label, name, sn["active"], sn["actives"], exp,
                               " (cut at %s while aux %s runs)" % trunc if trunc else ""),
                           lambda: {"where": label, "framer": name, "snapshot": sn,
                                    "auxes": {a: snaps.get(a) for a in sum(info.cond.values(), [])}})
            S = info.S[name]
            hum = S.head_human(trunc[0]) if trunc else S.human(sn["active"])
            hums = [hum]
            if trunc:
                # the statement fixes the *frames*; while cut, the same frames may be rendered relative to the
                # main frame ("<f0<f1>") or relative to the active frame when that is above the main frame ("<f0>f1")
                h = S.head(sn["active"])
                hums.append("<" + "<".join(h) + ">" + ">".join(exp[len(h):]))
            if ok:
                ctx.check(sn["humanShr"] in hums and sn["activeShr"] == sn["active"], "state-shares-not-outline",
                          "%s: framer %s state shares human=%r active=%r, expected %r / %r" % (
                              label, name, sn["humanShr"], sn["activeShr"], hum, sn["active"]),
                          lambda: {"where": label, "framer": name, "snapshot": sn})
            if prev_act.get(name) != (tuple(sn["actives"])):
                ctx.hit("outline_changes")
                if trunc:
                    ctx.hit("truncations")
                elif prev_act.get(name) and len(prev_act[name]) < len(sn["actives"]) and \
                        list(prev_act[name]) == sn["actives"][:len(prev_act[name])]:
                    ctx.hit("resumptions")
                prev_act[name] = tuple(sn["actives"])


def bracket_monitor(ctx, info, res, ignore=()):
    """C06 (a): enter/exit alternate per frame; at every tick boundary the entered-not-exited frames are
    exactly the full outlines of running framers and of their active auxiliaries."""
    inside = {}          # (framer, frame) -> bool
    bounds = {}
    for t in res.ticks[1:]:
        bounds.setdefault(t["seq"], []).append(("tick-end %d" % t["tick"], t["framers"]))
    bounds.setdefault(len(res.trace), []).append(("final", res.final["framers"]))

    def check_boundary(label, snaps):
        exp = set()
        for name, sn in snaps.items():
            if name not in info.recorded:
                continue
            sched = info.sched[name]
            running = sn["status"] in RUNNINGS if sched in ("active", "inactive", "slave") else bool(sn["actives"])
            if running and sn["active"]:
                for f in info.S[name].outline(sn["active"]):
                    exp.add((name, f))
        got = set(k for k, v in inside.items() if v)
        if ignore:
            ign = set(ignore)
            for name, sn in snaps.items():
                if sn.get("main") and sn["main"][0] in ign:
                    ign.add(name)
            exp = set(k for k in exp if k[0] not in ign)
            got = set(k for k in got if k[0] not in ign)
        ctx.hit("boundaries_checked")
        if exp != got:
            miss = sorted(exp - got)
            extra = sorted(got - exp)
            key = "entered-frames-not-full-outlines/" + ("left-entered" if extra else "not-entered")
            ctx.fail(key, "%s: entered-but-not-exited frames differ from the full outlines of running framers: "
                          "left entered %s, not entered %s" % (label, extra, miss),
                     {"where": label, "left_entered": extra, "missing": miss})
        else:
            ctx.check(True, "ok")

    for i, e in enumerate(res.trace):
        for label, snaps in bounds.get(i, []):
            check_boundary(label, snaps)
        ctx.event()
        k = (e["framer"], e["frame"])
        if e["ctx"] == "enter":
            ctx.check(not inside.get(k), "enter-while-entered",
                      "frame %s.%s entered twice without an exit (event %d, tick %d)" % (k[0], k[1], i, e["tick"]),
                      lambda: {"event": e, "index": i, "before": res.trace[max(0, i - 6):i]})
            inside[k] = True
        elif e["ctx"] == "exit":
            ctx.check(bool(inside.get(k)), "exit-while-not-entered",
                      "frame %s.%s exited while not entered (event %d, tick %d)" % (k[0], k[1], i, e["tick"]),
                      lambda: {"event": e, "index": i, "before": res.trace[max(0, i - 6):i]})
            inside[k] = False
    for label, snaps in bounds.get(len(res.trace), []):
        check_boundary(label, snaps)


def transition_order_monitor(ctx, info, res):
    """C06 (b): for every run of a scheduled or slave framer, its own enter/exit/renter/rexit events are
    exactly: exits bottom-up from the outline-difference point, rexits bottom-up and renters top-down of the
    shared ancestors, enters top-down of the rest of the target outline; stop/abort exits bottom-up."""
    prev = {}
    for s in res.sends:
        name = s["tasker"]
        if name not in info.recorded or "seq_end" not in s:
            continue
        S = info.S[name]
        evs = [e for e in res.trace[s["seq"]:s["seq_end"]] if e["framer"] == name
               and e["ctx"] in ("enter", "exit", "renter", "rexit")]
        before = prev.get(name, {"status": "stopped", "active": None})
        if not s.get("selfpost"):
            continue
        after = {"status": s["selfpost"]["status"], "active": s["selfpost"]["active"]}
        got = [(e["ctx"], e["frame"]) for e in evs]
        bstat, bact = before["status"], before["active"]
        astat, aact = after["status"], after["active"]
        exp = None
        kind = None
        if bstat in RUNNINGS and astat in RUNNINGS:
            if got or bact != aact:
                ex, en, rx = S.exen(S.outline(bact), aact)
                exp = [("exit", f) for f in reversed(ex)] + [("rexit", f) for f in reversed(rx)] + \
                      [("renter", f) for f in rx] + [("enter", f) for f in en]
                if aact == bact:
                    kind = "self"
                elif aact in S.head(bact):
                    kind = "ancestor"
                elif bact in S.head(aact):
                    kind = "descendant"
                elif S.head(aact)[0] == S.head(bact)[0]:
                    kind = "same_tree"
                else:
                    kind = "other_tree"
            else:
                exp = []
        elif bstat not in RUNNINGS and astat in RUNNINGS:
            exp = [("enter", f) for f in S.outline(aact)] if aact else None
            kind = "start"
        elif bstat in RUNNINGS and astat not in RUNNINGS:
            exp = [("exit", f) for f in reversed(S.outline(bact))]
            kind = "stop_abort"
        else:
            exp = []
        prev[name] = after
        if exp is None:
            continue
        if kind:
            ctx.hit("trans_" + kind)
        ctx.check(got == exp, "transition-action-order" + ("/" + kind if kind else "/none"),
                  "framer %s tick %d (%s -> %s): enter/exit/renter/rexit events %s, expected %s" % (
                      name, s["tick"], bact, aact, got, exp),
                  lambda: {"framer": name, "tick": s["tick"], "from": bact, "to": aact, "observed": got, "expected": exp})


# --------------------------------------------------------------------------- C08
def eval_let(needs, snap):
    """evaluate `let` needs (comparisons of watched shares with literals) on a recorded store snapshot"""
    from vf.flo.refint import cmp_eval
    for n in needs:
        if n["n"] != "cmp" or n["state"] not in snap or isinstance(n["goal"], dict):
            return None
        r = cmp_eval(snap[n["state"]]["value"], n["op"], n["goal"], n.get("tol"))
        if n.get("neg"):
            r = not r
        if not r:
            return False
    return True


EFFECT_CTX = ("enter", "exit", "renter", "rexit")


def _exited_by_main(info, evs, j, aux):
    """True when the exit event evs[j] of aux framer `aux` belongs to the exit of a frame that owns it: only exit
    events follow until the exit action of a frame naming `aux` as one of its auxiliaries"""
    for e in evs[j + 1:]:
        if e["ctx"] not in EFFECT_CTX:
            continue
        if e["ctx"] != "exit":
            return False
        key = (e["framer"], e["frame"])
        if aux in info.plain.get(key, []) or aux in info.cond.get(key, []):
            return True
    return False


def guard_monitor(ctx, info, res):
    """C08: a frame is entered only if its `let` conditions (and its plain auxes' first-outline conditions)
    held at the latest attempt; a refused attempt has no exit/rexit/renter/enter effects and leaves the
    framer's clocks and active frame alone.  Needs a benter recorder first in every frame."""
    prevpost = {}
    clones = set((getattr(res, "alias", None) or {}).values())      # framers that ran as clones of moot framers
    for s in res.sends:
        if "seq_end" not in s:
            continue
        if s["depth"] == 0:
            evs = res.trace[s["seq"]:s["seq_end"]]
            pending = {}        # framer -> index of refused attempt still in force
            last_attempt = {}   # (framer, frame) -> (index, ok)
            for j, e in enumerate(evs):
                ctx.event()
                fr, f = e["framer"], e["frame"]
                if e["ctx"] == "benter":
                    needs = info.guarded.get((fr, f), [])
                    ok = eval_let(needs, e["snap"] or {}) if needs else True
                    if ok is None:
                        continue
                    last_attempt[(fr, f)] = (j, ok)
                    pending.pop(fr, None)
                    if needs and fr in clones:
                        ctx.hit("guard_attempts_in_clones")
                        if any(n.get("neg") for n in needs):
                            ctx.hit("negated_guard_attempts_in_clones")
                    if ok:
                        ctx.hit("attempts_admitted")
                    else:
                        ctx.hit("attempts_refused")
                        pending[fr] = j
                        if info.sched[fr] == "aux":
                            # the refused aux first-frame guard also refuses the transition / start in progress
                            for k in range(j - 1, -1, -1):
                                if evs[k]["ctx"] == "benter" and info.sched[evs[k]["framer"]] != "aux":
                                    owner = evs[k]["framer"]
                                    if fr in sum([info.plain.get((owner, x), []) for x in info.S[owner].order], []):
                                        pending[owner] = j
                                        ctx.hit("aux_guard_refusals")
                                    break
                                if evs[k]["ctx"] != "benter":
                                    break
                elif e["ctx"] in EFFECT_CTX:
                    if fr in pending and info.sched[fr] == "aux" and e["ctx"] == "exit" and \
                            _exited_by_main(info, evs, j, fr):
                        # not an effect of the refused attempt: the main framer took a transition (or stopped) after
                        # its aux ran, and the exit of the main frame exits the aux (aux frames first, then the frame)
                        ctx.hit("aux_exited_by_main_after_refusal")
                        pending.pop(fr, None)
                    if fr in pending:
                        ctx.fail("refused-attempt-had-effects",
                                 "tick %d: %s.%s %s action ran after an entry attempt of framer %s was refused" % (
                                     e["tick"], fr, f, e["ctx"], fr),
                                 {"tick": e["tick"], "event": {k: e[k] for k in ("framer", "frame", "ctx", "tag")},
                                  "refused_attempt": {k: evs[pending[fr]][k] for k in ("framer", "frame", "ctx", "tag", "snap")}})
                        pending.pop(fr, None)
                    if e["ctx"] == "enter":
                        needs = info.guarded.get((fr, f), [])
                        if needs:
                            la = last_attempt.get((fr, f))
                            ctx.hit("guarded_enters")
                            ctx.check(la is not None and la[1], "entered-with-unsatisfied-guard",
                                      "tick %d: frame %s.%s entered although its let conditions did not hold at the latest attempt" % (
                                          e["tick"], fr, f),
                                      lambda: {"tick": e["tick"], "frame": [fr, f], "needs": needs,
                                               "attempt": None if la is None else evs[la[0]].get("snap")})
                        for a in info.plain.get((fr, f), []):
                            Sa = info.S[a]
                            for g in Sa.outline(Sa.first):
                                if info.guarded.get((a, g)):
                                    la = last_attempt.get((a, g))
                                    ctx.check(la is not None and la[1], "entered-with-unsatisfied-aux-guard",
                                              "tick %d: frame %s.%s entered although first-frame condition of its aux %s (%s) did not hold" % (
                                                  e["tick"], fr, f, a, g), lambda: {"tick": e["tick"], "frame": [fr, f], "aux": a})
        # clocks / active frame untouched when nothing was entered
        name = s["tasker"]
        sp = s.get("selfpost")
        if sp and name in info.recorded:
            pp = prevpost.get(name)
            own_enters = [e for e in res.trace[s["seq"]:s["seq_end"]] if e["framer"] == name and e["ctx"] == "enter"]
            if pp and s["control"] == "run" and pp["status"] in RUNNINGS and sp["status"] in RUNNINGS:
                if not own_enters:
                    ctx.hit("no_transition_runs")
                    ctx.check(sp["recurred"] == pp["recurred"] + 1 and sp["elapsed"] > pp["elapsed"] - 1e-12
                              and sp["active"] == pp["active"] and sp["humanShr"] == pp["humanShr"],
                              "clocks-or-outline-changed-without-transition",
                              "tick %d: framer %s took no transition but recurred %s->%s elapsed %s->%s active %s->%s" % (
                                  s["tick"], name, pp["recurred"], sp["recurred"], pp["elapsed"], sp["elapsed"], pp["active"], sp["active"]),
                              lambda: {"tick": s["tick"], "framer": name, "before": pp, "after": sp})
                else:
                    ctx.check(sp["recurred"] == 0 and sp["elapsed"] == 0.0, "clocks-not-restarted-on-transition",
                              "tick %d: framer %s entered %s but recurred=%s elapsed=%s" % (
                                  s["tick"], name, [e["frame"] for e in own_enters], sp["recurred"], sp["elapsed"]),
                              lambda: {"tick": s["tick"], "framer": name, "after": sp})
            prevpost[name] = sp


# --------------------------------------------------------------------------- C09
def aux_monitor(ctx, info, res):
    """C09: plain auxiliaries live exactly as long as their main frame (see DESIGN C09)."""
    inside = {}
    prevpost = None
    owner = {}     # aux -> (framer, frame) under which it is currently entered (from enter order)
    for s in res.sends:
        if s["depth"] != 0 or "seq_end" not in s:
            continue
        evs = res.trace[s["seq"]:s["seq_end"]]
        X = s["tasker"]
        for j, e in enumerate(evs):
            ctx.event()
            fr, f, c = e["framer"], e["frame"], e["ctx"]
            key = (fr, f)
            if c == "enter":
                inside[key] = True
                auxes = info.plain.get(key, [])
                if auxes and fr in info.recorded:
                    exp = []
                    for a in auxes:
                        Sa = info.S[a]
                        exp += [(a, g, "enter") for g in Sa.outline(Sa.first)]
                    # events after the frame's own enter recorder(s)
                    k = j + 1
                    while k < len(evs) and evs[k]["framer"] == fr and evs[k]["frame"] == f and evs[k]["ctx"] == "enter":
                        k += 1
                    if k == j + 1:
                        got = [(x["framer"], x["frame"], x["ctx"]) for x in evs[k:k + len(exp)]]
                        ctx.hit("aux_activations", len(auxes))
                        ctx.check(got == exp, "aux-not-started-right-after-main-frame-enter",
                                  "tick %d: after entering %s.%s expected its auxes' first outlines %s to be entered next, saw %s" % (
                                      e["tick"], fr, f, exp, got), lambda: {"tick": e["tick"], "frame": [fr, f], "expected": exp, "observed": got})
                        for a in auxes:
                            if a in owner and owner[a] != key:
                                ctx.hit("shared_original_reused")
                            owner[a] = key
            elif c == "exit":
                inside[key] = False
                for a in info.plain.get(key, []):
                    left = [k2 for k2, v in inside.items() if v and k2[0] == a]
                    if owner.get(a) == key:
                        ctx.hit("aux_exits_checked")
                        ctx.check(not left, "aux-still-entered-at-main-frame-exit",
                                  "tick %d: exit actions of %s.%s ran while frames %s of its aux %s were still entered" % (
                                      e["tick"], fr, f, left, a), lambda: {"tick": e["tick"], "frame": [fr, f], "aux": a, "left": left})
            elif c == "recur" and fr in info.recorded:
                post = s.get("post") or {}
                auxes = [a for a in info.plain.get(key, []) if owner.get(a) == key]
                if auxes and post.get(fr) and f in post[fr]["actives"]:
                    k = j + 1
                    while k < len(evs) and evs[k]["framer"] == fr and evs[k]["frame"] == f and evs[k]["ctx"] == "recur":
                        k += 1
                    if k == j + 1:
                        exp = []
                        for a in auxes:
                            exp += [(a, g, "recur") for g in (post.get(a) or {}).get("actives", [])]
                        got = [(x["framer"], x["frame"], x["ctx"]) for x in evs[k:k + len(exp)]]
                        ctx.hit("aux_recurs_checked")
                        ctx.check(got == exp, "aux-recur-not-right-after-main-frame-recur",
                                  "tick %d: after recur of %s.%s expected aux recur actions %s, saw %s" % (e["tick"], fr, f, exp, got),
                                  lambda: {"tick": e["tick"], "frame": [fr, f], "expected": exp, "observed": got})
        # one aux run per main run, aux transitions first
        if prevpost and s["control"] == "run" and X in info.recorded and prevpost.get(X, {}).get("status") in RUNNINGS:
            first_own_precur = next((j for j, e in enumerate(evs) if e["framer"] == X and e["ctx"] == "precur"), None)
            for f in prevpost[X]["actives"]:
                for a in info.plain.get((X, f), []):
                    pa = prevpost.get(a)
                    if not pa or not pa["actives"] or pa["main"] != [X, f] or a not in info.recorded:
                        continue
                    top = pa["actives"][0]
                    idx = [j for j, e in enumerate(evs) if e["framer"] == a and e["frame"] == top and e["ctx"] == "precur"]
                    ctx.hit("aux_runs_checked")
                    ctx.check(len(idx) == 1, "aux-not-run-once-per-main-run",
                              "tick %d: aux %s of active frame %s.%s evaluated its transitions %d times in one run of %s" % (
                                  s["tick"], a, X, f, len(idx), X), lambda: {"tick": s["tick"], "aux": a, "main": [X, f]})
                    if idx and first_own_precur is not None:
                        ctx.check(idx[0] < first_own_precur, "aux-transitions-after-main-framer-transitions",
                                  "tick %d: aux %s evaluated its transitions after the main framer %s began evaluating its own" % (
                                      s["tick"], a, X), lambda: {"tick": s["tick"], "aux": a, "main": [X, f]})
        # done needs
        for j, e in enumerate(evs):
            if e["ctx"] != "precur" or e["framer"] != X or not e.get("done"):
                continue
            fobj = info.S[X].frames[e["frame"]]
            gos = [st for st in fobj["stmts"] if st["v"] in ("go", "timeout", "repeat") or (st["v"] == "aux" and st.get("needs"))]
            if not gos or gos[0]["v"] != "go" or len(gos[0]["needs"]) != 1 or gos[0]["needs"][0]["n"] != "auxdone":
                continue
            n = gos[0]["needs"][0]
            fname = e["frame"] if n.get("frame") in (None, "me", "me!") else n["frame"]
            auxes = info.plain.get((X, fname), [])
            done = e["done"]
            if n["which"] == "any":
                val = any(done.get(a) for a in auxes)
            elif n["which"] == "all":
                val = bool(auxes) and all(done.get(a) for a in auxes)
            else:
                val = (n["which"] in auxes) and bool(done.get(n["which"])) if n.get("frame") else bool(done.get(n["which"]))
            far = info.S[X].resolve_far(e["frame"], gos[0]["far"])
            if far is None or info.guarded.get((X, far)) or any(info.plain.get((X, g)) or info.guarded.get((X, g))
                                                                for g in info.S[X].outline(far)):
                continue
            later_own = [x for x in evs[j + 1:] if x["framer"] == X and x["ctx"] in EFFECT_CTX]
            ctx.hit("done_need_" + n["which"] if n["which"] in ("any", "all") else "done_need_named")
            if val:
                ctx.check(bool(later_own), "done-need-true-but-transition-not-taken",
                          "tick %d: `%s` in %s.%s is true (done flags %s) but no transition followed" % (
                              e["tick"], P.render_need(n), X, e["frame"], done), lambda: {"tick": e["tick"], "need": n, "done": done})
            elif len(gos) == 1 and e["frame"] == (prevpost or {}).get(X, {}).get("actives", [None])[-1]:
                ctx.check(not later_own, "done-need-false-but-transition-taken",
                          "tick %d: `%s` in %s.%s is false (done flags %s) but a transition followed" % (
                              e["tick"], P.render_need(n), X, e["frame"], done), lambda: {"tick": e["tick"], "need": n, "done": done})
        if s.get("post"):
            prevpost = s["post"]


# --------------------------------------------------------------------------- C10
def suspend_monitor(ctx, info, res):
    """C10: conditional auxiliaries suspend the frames below their main frame (see DESIGN C10)."""
    conds = [(X, M, a) for (X, M), auxes in info.cond.items() for a in auxes]
    prevpost = None
    cut_seen = {}
    for s in res.sends:
        if s["depth"] != 0 or "seq_end" not in s or not s.get("post"):
            continue
        post = s["post"]
        evs = res.trace[s["seq"]:s["seq_end"]]
        X = s["tasker"]
        for (fx, M, a) in conds:
            if fx != X or X not in info.recorded or a not in info.recorded:
                continue
            ctx.event()
            S = info.S[X]
            # an original aux may be the conditional aux of several frames (never of two frames of one outline): what
            # it does in this run belongs to the frame M only if M is in the framer's outline before or after the run
            outl = set()
            for pp in (prevpost, post):
                act = (pp or {}).get(X, {}).get("active")
                if act:
                    outl.update(S.outline(act))
            if M not in outl:
                continue
            was = bool(prevpost and prevpost.get(a, {}).get("actives") and not prevpost[a]["done"] and prevpost[a]["main"] == [X, M])
            now = bool(post.get(a, {}).get("actives") and not post[a]["done"] and post[a]["main"] == [X, M])
            a_idx = [j for j, e in enumerate(evs) if e["framer"] == a]
            a_enters = [j for j in a_idx if evs[j]["ctx"] == "enter"]
            a_exits = [j for j in a_idx if evs[j]["ctx"] == "exit"]
            own_fx = [j for j, e in enumerate(evs) if e["framer"] == X and e["ctx"] in EFFECT_CTX]
            m_exited = any(evs[j]["frame"] == M and evs[j]["ctx"] == "exit" for j in own_fx)
            if was and s["control"] == "run":
                full_before = S.outline(prevpost[X]["active"]) if prevpost[X]["active"] else []
                below = full_before[full_before.index(M) + 1:] if M in full_before else []
                # M itself suspended by a running conditional aux higher in the outline: its own aux does not run
                higher = [(m2, a2) for (x2, m2, a2) in conds if x2 == X and m2 != M and m2 in S.head(M)
                          and prevpost.get(a2, {}).get("actives") and not prevpost[a2]["done"] and prevpost[a2]["main"] == [X, m2]]
                higher_now = [(m2, a2) for (x2, m2, a2) in conds if x2 == X and m2 != M and m2 in S.head(M)
                              and post.get(a2, {}).get("actives") and not post[a2]["done"] and post[a2]["main"] == [X, m2]]
                if higher or higher_now:     # (an upper aux running, or activated in this very run before M was evaluated)
                    ctx.hit("nested_lower_aux_suspended")
                    continue
                ctx.hit("runs_while_aux_running")
                lost = prevpost[X]["actives"] != S.head(M)
                skey = "suspended-frame-acted"
                if lost and cut_seen.get((X, M, a)):
                    skey = "conditional-aux-truncation-lost-after-reactivation"      # see the C05 known finding
                    ctx.hit("known_truncation_lost")
                early = [j for j in own_fx if not a_idx or j < a_idx[0]]
                if not early:
                    top = prevpost[a]["actives"][0]
                    n = len([j for j in a_idx if evs[j]["frame"] == top and evs[j]["ctx"] == "precur"])
                    ctx.check(n == 1, "running-conditional-aux-not-run-once",
                              "tick %d: running conditional aux %s of %s.%s was run %d times in this run" % (s["tick"], a, X, M, n),
                              lambda: {"tick": s["tick"], "aux": a, "main": [X, M]})
                completed = bool(a_exits) and not now and not m_exited
                if completed:
                    ctx.hit("cond_aux_completions")
                last_a = a_idx[-1] if a_idx else -1
                later_trans = [j for j in own_fx if j > last_a] if completed else []
                for j, e in enumerate(evs):
                    if e["framer"] != X or e["frame"] not in below:
                        continue
                    if e["ctx"] == "benter":
                        # an entry guard evaluated for a transition attempted by a clause that is *not* suspended
                        # (above the main frame, or an earlier clause of the main frame itself): the suspended frame
                        # does not act; its own transitions / recurs would show as precur / recur events
                        ctx.hit("guard_attempt_on_suspended_frame")
                        continue
                    if m_exited:
                        m_exit_at = [k for k in own_fx if evs[k]["frame"] == M and evs[k]["ctx"] == "exit"][0]
                        ok = e["ctx"] == "exit" or j > m_exit_at      # after the main frame is out a new outline is entered
                        why = "its main frame is being exited: only exit actions of suspended frames may run before that"
                    elif completed:
                        ok = j > last_a and (e["ctx"] == "recur" or bool(later_trans))
                        why = "the aux completed: suspended frames resume (recur, no re-entry) only after the aux is exited"
                        if ok and e["ctx"] == "recur":
                            ctx.hit("resumed_same_tick")
                    elif early:
                        ok = True       # a transition taken above / before the aux clause decides (C05 known finding territory)
                        why = ""
                    else:
                        ok = False
                        why = "the conditional aux is still running"
                    ctx.check(ok, skey,
                              "tick %d: %s action of suspended frame %s.%s ran while conditional aux %s of %s: %s" % (
                                  s["tick"], e["ctx"], X, e["frame"], a, M, why),
                              lambda: {"tick": s["tick"], "event": {k: e[k] for k in ("framer", "frame", "ctx", "tag")}, "aux": a, "main": [X, M]})
                if completed and below and not later_trans and not lost:
                    # the frames that resume: all below M, or down to the main frame of a lower conditional aux that is
                    # still running (frames below that one stay suspended by it)
                    resume = below
                    for bi, fname in enumerate(below):
                        if any(x2 == X and m2 == fname and post.get(a2, {}).get("actives") and not post[a2]["done"]
                               and post[a2]["main"] == [X, m2] for (x2, m2, a2) in conds):
                            resume = below[:bi + 1]
                            ctx.hit("resumed_down_to_lower_running_aux")
                            break
                    rec_below = [e for j, e in enumerate(evs) if e["framer"] == X and e["frame"] in resume and e["ctx"] == "recur" and j > last_a]
                    ctx.check(len(rec_below) == len(resume), "suspended-frames-did-not-resume-same-tick",
                              "tick %d: conditional aux %s completed but recur actions of %s ran for %s only" % (
                                  s["tick"], a, resume, [e["frame"] for e in rec_below]), lambda: {"tick": s["tick"], "aux": a, "main": [X, M]})
                if now and not early:
                    late = [j for j in own_fx if a_idx and j > a_idx[0]]
                    ctx.check(not late, "later-clause-not-skipped-while-aux-running",
                              "tick %d: framer %s performed a transition after running its still-running conditional aux %s" % (
                                  s["tick"], X, a), lambda: {"tick": s["tick"], "aux": a, "main": [X, M]})
                    ctx.hit("later_clauses_skipped")
                if m_exited:
                    ctx.hit("main_exited_while_suspended")
                    left = post.get(a, {}).get("actives")
                    ctx.check(not left, "conditional-aux-outlives-main-frame",
                              "tick %d: main frame %s.%s was exited but its conditional aux %s is still active %s" % (
                                  s["tick"], X, M, a, left), lambda: {"tick": s["tick"], "aux": a, "main": [X, M]})
                if not now:
                    cut_seen.pop((X, M, a), None)
            elif not was and a_enters and not (prevpost and prevpost.get(a, {}).get("actives") and not prevpost[a]["done"]):
                # (when the aux was running under another frame at the start of this run its events belong to that frame)
                # activation: entered and run once in the same run
                ctx.hit("cond_aux_activations")
                Sa = info.S[a]
                exp = Sa.outline(Sa.first)
                got = [evs[j]["frame"] for j in a_enters[:len(exp)]]
                recurs = [j for j in a_idx if evs[j]["ctx"] == "recur" and j > a_enters[0]]
                ctx.check(got == exp and bool(recurs), "conditional-aux-not-entered-and-run-once",
                          "tick %d: conditional aux %s activated: entered %s (first outline %s), recur events %d" % (
                              s["tick"], a, got, exp, len(recurs)), lambda: {"tick": s["tick"], "aux": a})
                if not now and not m_exited:
                    ctx.hit("cond_aux_immediate")
                    ctx.check(bool(a_exits) and not post.get(a, {}).get("actives"), "immediately-done-conditional-aux-not-exited",
                              "tick %d: conditional aux %s completed in its first run but was not exited" % (s["tick"], a),
                              lambda: {"tick": s["tick"], "aux": a})
                elif now:
                    ctx.hit("cond_aux_later_or_never")
                    if post[X]["actives"] == S.head(M):
                        cut_seen[(X, M, a)] = True
        prevpost = post
