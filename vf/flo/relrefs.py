"""Relative store addressing under renaming (C13): program AST with explicit reference
sites, generator, renderer (under a naming), a syntactic model of *which names a
reference resolves through*, and build / observe / run helpers on the real ioflo.

Entities that can be renamed are keyed
    ('F', i)        framer i (active, aux or moot original)
    ('X', i, j)     frame j of framer i
    ('A', k)        named do-actor k   (name = list of lower-case parts, `as foo bar`)
    ('T', k)        named clone tag k  (`aux mb as <tag>`)
A *naming* maps every key to its current name.  Literal path segments are plain
strings and never follow a renaming, even when they spell an entity's old name.

Every reference site has a unique id n and ends in the unique tail segment r<n>
(shares) or n<n> (the node of a `do .. via`), so the share a site resolved to can
be found in the store by its tail alone, independently of the act's parameters.
"""
import os
import re

from vf import core

from ioflo.aid.consoling import getConsole
from ioflo.base import skedding, doing, storing, acting, framing
from ioflo.base import building as _building

getConsole().reinit(verbosity=0)

KEYWORDS = ("me", "main", "framer", "frame", "actor")
BEHAVIOR = "vf.flo.relrefs"


# --------------------------------------------------------------------------- doer
@doing.doify('VfRef', parametric=True)
def vfRef(self, **kwa):
    """writes a marker naming the parameter key through every share it was given"""
    for k, v in kwa.items():
        if isinstance(v, storing.Share):
            v.update(value="do:" + k)
    return None


# --------------------------------------------------------------------------- names
def camel_name(parts):
    """what `as foo bar` makes of its parts (each part capitalised, joined)"""
    return "".join(p[:1].upper() + p[1:].lower() for p in parts)


def camel_split(name):
    """our own split of a CamelCase name into lower-case path segments"""
    segs, cur = [], ""
    for ch in name:
        if ch.isupper():
            if cur:
                segs.append(cur)
            cur = ch.lower()
        else:
            cur += ch
    if cur:
        segs.append(cur)
    return segs


BUILTIN = {"put": "PokeDirect", "copy": "PokeIndirect", "inc": "IncDirect", "incfrom": "IncIndirect",
           "set": "GoalDirect", "setfrom": "GoalIndirect", "needb": "NeedBoolean", "needd": "NeedDirect",
           "needi": "NeedIndirect", "do": "VfRef"}


# --------------------------------------------------------------------------- generator
FRAMER_NAMES = ["fa", "fb", "fc", "ga", "gb", "ma", "mb", "mc", "top", "xa", "foo"]
FRAME_NAMES = ["xa", "xb", "xc", "xd", "xe", "fa", "top", "foo", "ma"]
ACTOR_PARTS = ["foo", "bar", "zed", "moo", "fa", "xa", "top", "poke", "direct", "vf", "ref", "ca", "x", "y", "b2", "q"]
TAG_NAMES = ["ca", "cb", "cc", "cd", "ce", "xb", "bar"]
PLAIN = ["top", "sub", "q", "data", "state", "goal"]


class Gen(object):
    def __init__(self, rng, size=1.0, deep=False):
        self.rng = rng
        self.size = size
        self.deep = deep       # chain of nested clones, every level with an inode of its own
        self.nref = 0
        self.framers = []      # {'i','name','sched','via','frames':[{'j','name','over','via','stmts','auxes'}]}
        self.actors = []       # list of parts lists
        self.tags = []         # list of tag names
        self.naming = {}

    # -- references
    def literal(self, first=False):
        rng = self.rng
        pool = list(PLAIN)
        pool += [f["name"] for f in self.framers]
        pool += [x["name"] for f in self.framers for x in f["frames"]]
        pool += [p for a in self.actors for p in a] + [camel_name(a) for a in self.actors] + list(self.tags)
        if not first:
            pool += list(KEYWORDS) * 3
        else:
            pool = [p for p in pool if p not in KEYWORDS]
        return rng.choice(pool)

    def body(self, lo=0, hi=2):
        n = self.rng.randint(lo, hi)
        return [self.literal(first=(k == 0)) for k in range(n)]

    def pick_framer_sel(self, fi, allow_main):
        rng = self.rng
        r = rng.random()
        if allow_main and r < 0.25:
            return "main"
        if r < 0.6:
            return "me"
        return ("F", rng.randrange(len(self.framers)))

    def pick_frame_sel(self, fi, fsel, allow_main):
        rng = self.rng
        if fsel == "main":
            return rng.choice(["main", "me", "main"])
        if isinstance(fsel, tuple):
            g = fsel[1]
            return rng.choice(["me", ("X", g, rng.randrange(len(self.framers[g]["frames"])))])
        return rng.choice(["me", "me", ("X", fi, rng.randrange(len(self.framers[fi]["frames"])))])

    def ref(self, fi, role, forms=None, node=False, raw=False, named_actor=True):
        """one reference site in framer fi"""
        rng = self.rng
        moot = self.framers[fi]["sched"] == "moot"
        forms = forms or ["abs", "root", "me", "framer", "frame", "actor", "main"]
        w = {"abs": 3, "root": 3, "me": 2, "framer": 4, "frame": 4, "actor": 3, "main": 5 if moot else 0}
        choices = [f for f in forms for _ in range(w[f])]
        form = rng.choice(choices)
        self.nref += 1
        r = {"id": self.nref, "role": role, "form": form, "fsel": None, "xsel": None, "asel": None,
             "node": node, "tail": ("n%d" if node else "r%d") % self.nref, "verbose": rng.randrange(16),
             "style": "raw" if raw else rng.choice(["of", "of", "of", "inline", "partial", "dotof"]),
             "dot": rng.random() < 0.5}
        r["body"] = self.body(1 if form == "abs" and rng.random() < 0.8 else 0, 2)
        if form == "abs" and r["body"] and rng.random() < 0.4:
            r["body"][0] = self.literal()           # absolute paths may start with me / framer / ...
        if form == "framer":
            r["fsel"] = self.pick_framer_sel(fi, False)
        elif form == "frame":
            r["fsel"] = self.pick_framer_sel(fi, False)
            r["xsel"] = self.pick_frame_sel(fi, r["fsel"], False)
        elif form == "actor":
            r["fsel"] = self.pick_framer_sel(fi, False) if rng.random() < 0.4 else "me"
            r["xsel"] = self.pick_frame_sel(fi, r["fsel"], False) if rng.random() < 0.5 else "me"
            if named_actor and self.actors and rng.random() < 0.4:
                r["asel"] = ("A", rng.randrange(len(self.actors)))
            else:
                r["asel"] = "me"
        elif form == "main":
            r["fsel"] = "main"
            k = rng.random()
            if k < 0.4:
                pass
            elif k < 0.75:
                r["xsel"] = rng.choice(["main", "main", "me"])
            else:
                r["xsel"] = "main"
                r["asel"] = "me"
        return r

    def inode(self, fi, for_do=False):
        forms = ["abs", "root", "root", "me", "me", "me", "framer", "frame"] + (["actor", "actor"] if for_do else [])
        r = self.ref(fi, "via", forms=forms + (["main"] if self.framers[fi]["sched"] == "moot" else []), node=True)
        if not for_do:
            r["tail"] = None
            if not r["body"]:
                r["body"] = [self.literal(first=True)]
        return r

    # -- statements
    def stmt(self, fi, xj):
        s = self._stmt(fi, xj)
        if s["op"] in ("put", "set", "inc", "copy", "do"):
            # the action's context: mostly the verb's own, sometimes another one (drawn from a generator of its own so
            # that the programs stay what they were): every context list of a frame is resolved -- and cloned -- alike
            st = self.rng.getstate()[1]
            import random as _random
            r2 = _random.Random(repr((st[0], st[1], st[-1], fi, xj)))
            if r2.random() < 0.35:
                s["ctx"] = r2.choice(["recur", "exit", "rexit", "renter", "precur", "rexit", "enter"])
        return s

    def _stmt(self, fi, xj):
        rng = self.rng
        if rng.random() < 0.12:
            # implicit framer-relative references: timeout / repeat / elapsed / recurred stand for framer.me.state.<clock>
            # (values far beyond the few ticks of the run, so that they never fire)
            last = xj == len(self.framers[fi]["frames"]) - 1          # (timeout / repeat go to the lexically next frame)
            return {"op": "clock", "kind": rng.choice(["goel", "gore", "goelgoal"] + ([] if last else ["timeout", "repeat", "timeout"])),
                    "target": rng.randrange(len(self.framers[fi]["frames"]))}
        op = rng.choice(["put", "put", "set", "inc", "copy", "go", "go", "do", "do", "do"])
        if op == "put":
            return {"op": "put", "dst": self.ref(fi, "put.dst")}
        if op == "set":
            s = {"op": "set", "dst": self.ref(fi, "set.dst"), "src": None}
            if rng.random() < 0.5:
                s["src"] = self.ref(fi, "set.src")
            return s
        if op == "inc":
            s = {"op": "inc", "dst": self.ref(fi, "inc.dst"), "src": None}
            if rng.random() < 0.5:
                s["src"] = self.ref(fi, "inc.src")
            return s
        if op == "copy":
            return {"op": "copy", "src": self.ref(fi, "copy.src"), "dst": self.ref(fi, "copy.dst")}
        if op == "go":
            needs = []
            for _ in range(rng.randint(1, 2)):
                n = {"state": self.ref(fi, "need.state"), "cmp": rng.choice([None, "==", "==", "!=", "is updated", "is changed"]), "goal": None}
                if n["cmp"] in ("==", "!=") and rng.random() < 0.6:
                    n["goal"] = self.ref(fi, "need.goal")
                needs.append(n)
            return {"op": "go", "needs": needs, "target": rng.randrange(len(self.framers[fi]["frames"]))}
        # do
        s = {"op": "do", "actor": None, "via": None, "pers": [], "froms": [], "fors": []}
        if rng.random() < 0.75:
            for _ in range(20):
                parts = [rng.choice(ACTOR_PARTS) for _ in range(rng.randint(1, 3))]
                if parts not in self.actors and camel_name(parts) != "VfRef":
                    break
            else:
                parts = ["uniq%d" % len(self.actors)]
            self.actors.append(parts)
            s["actor"] = len(self.actors) - 1
        if rng.random() < 0.5:
            s["via"] = self.inode(fi, for_do=True)
        for _ in range(rng.randint(1, 3)):
            p = self.ref(fi, "do.per", raw=True, named_actor=False)
            if p["form"] == "root" and rng.random() < 0.4:
                p["body"] = []
                p["defaultkey"] = True       # `per r<n> ""`: ipath defaults to the key
            s["pers"].append(p)
        if rng.random() < 0.35:
            # `for k in .pre..`: the ioinit path text is the value of field k of a share pre-loaded by `init`
            src = self.ref(fi, "do.for", forms=["abs"])
            src["body"] = ["pre"] + src["body"]
            io = self.ref(fi, "do.forio", raw=True, named_actor=False)
            s["fors"].append((src, io))
        if rng.random() < 0.5 and self.ninst.get(fi, 0) == 1:
            # the source share of `from` is not kept by the act, it is observed in the store only (by its
            # tail), which identifies the site only when the framer is built exactly once
            s["froms"].append(self.ref(fi, "do.from", named_actor=False))
        return s

    # -- whole program
    def program(self):
        rng = self.rng
        names = rng.sample(FRAMER_NAMES, 6)
        scheds = ["active"] * rng.choice([1, 2, 2]) + (["aux"] if rng.random() < 0.6 else []) + ["moot"] * rng.choice([1, 2, 2, 2])
        if self.deep:
            scheds = ["active"] + ["moot"] * rng.choice([2, 3, 3])
        for i, sched in enumerate(scheds):
            fr = {"i": i, "name": names[i], "sched": sched, "via": None, "frames": []}
            self.framers.append(fr)
            nfr = rng.randint(2, 4)
            for j, xn in enumerate(rng.sample(FRAME_NAMES, nfr)):
                over = None
                if j and rng.random() < 0.55:
                    over = rng.randrange(j)
                    depth, o = 1, over
                    while fr["frames"][o]["over"] is not None:
                        o = fr["frames"][o]["over"]
                        depth += 1
                    if depth > 2:
                        over = None
                fr["frames"].append({"j": j, "name": xn, "over": over, "via": None, "stmts": [], "auxes": []})
        nact = scheds.count("active")
        # auxiliaries: the plain aux in a frame of an active framer, every moot cloned once or twice
        for i, fr in enumerate(self.framers):
            if fr["sched"] == "aux":
                host = self.framers[rng.randrange(nact)]
                rng.choice(host["frames"])["auxes"].append({"kind": "plain", "target": i, "via": None})
        moots = [i for i, fr in enumerate(self.framers) if fr["sched"] == "moot"]
        for k, mi in enumerate(moots):
            for c in range(rng.choice([1, 1, 2])):
                hosts = list(range(nact)) + (moots[:k] * 2 if rng.random() < 0.8 else [])
                if self.deep and c == 0:
                    hosts = [moots[k - 1]] if k else [0]      # active -> clone -> clone in clone -> ...
                host = self.framers[rng.choice(hosts)]
                d = {"kind": rng.choice(["named", "named", "mine"]), "target": mi, "via": None, "tag": None}
                if d["kind"] == "named":
                    free = [t for t in TAG_NAMES if t not in self.tags and t not in names]
                    self.tags.append(rng.choice(free))
                    d["tag"] = len(self.tags) - 1
                rng.choice(host["frames"])["auxes"].append(d)
        self.ninst = {}
        for inst in instances({"framers": self.framers}):
            self.ninst[inst.fi] = self.ninst.get(inst.fi, 0) + 1
        # inodes and statements (after all names exist so literals can reuse them)
        for i, fr in enumerate(self.framers):
            if rng.random() < (0.9 if self.deep else 0.55):
                fr["via"] = self.inode(i)
            for x in fr["frames"]:
                if rng.random() < 0.45:
                    x["via"] = self.inode(i)
                for _ in range(rng.randint(1, max(1, int(3 * self.size)))):
                    x["stmts"].append(self.stmt(i, x["j"]))
            for x in fr["frames"]:
                for d in x["auxes"]:
                    if d["kind"] != "plain":
                        k = rng.random()
                        if self.deep:
                            if k < 0.15:
                                d["via"] = "mine"
                            elif k < 0.9:
                                d["via"] = self.inode(i)
                                if rng.random() < 0.4 and d["via"]["form"] != "abs":
                                    d["via"].update(form="abs", fsel=None, xsel=None, asel=None)
                        elif k < 0.3:
                            d["via"] = "mine"
                        elif k < 0.65:
                            d["via"] = self.inode(i)
            # walk through the leaves so that every frame is entered
            leaves = [x["j"] for x in fr["frames"] if not any(y["over"] == x["j"] for y in fr["frames"])]
            fr["first"] = leaves[0]
            for a, b in zip(leaves, leaves[1:]):
                fr["frames"][a]["stmts"].append({"op": "goto", "target": b})
        naming = {}
        for i, fr in enumerate(self.framers):
            naming[("F", i)] = fr["name"]
            for x in fr["frames"]:
                naming[("X", i, x["j"])] = x["name"]
        for k, parts in enumerate(self.actors):
            naming[("A", k)] = list(parts)
        for k, t in enumerate(self.tags):
            naming[("T", k)] = t
        return {"framers": self.framers, "naming": naming, "nref": self.nref}


def gen_program(rng, size=1.0, deep=False):
    return Gen(rng, size, deep).program()


# --------------------------------------------------------------------------- renderer
def _sel_text(sel, naming):
    if isinstance(sel, tuple):
        n = naming[sel]
        return camel_name(n) if sel[0] == "A" else n
    return sel


def ref_parts(r, naming=None):
    """the ipath the builder is documented to produce for this reference, as a list of parts; with a
    naming the parts are text, without one named selectors stay symbolic (entity keys)"""
    t = (lambda s: _sel_text(s, naming)) if naming is not None else (lambda s: s)
    tail = [r["tail"]] if r.get("tail") else []
    body = list(r["body"]) + tail
    form = r["form"]
    if form == "abs":
        return [""] + body
    if form == "root":
        return body
    if form == "me":
        return ["me"] + body
    parts = ["framer", t(r["fsel"])]
    if r["xsel"] is not None:
        parts += ["frame", t(r["xsel"])]
    if r["asel"] is not None:
        parts += ["actor", t(r["asel"])]
    return parts + body


def render_ref(r, naming):
    """FloScript text of an indirect reference (path plus optional relation clauses)"""
    form = r["form"]
    tail = [r["tail"]] if r.get("tail") else []
    body = list(r["body"]) + tail
    dot = "." if (r["node"] and r["dot"]) else ""
    v = r["verbose"]
    style = r["style"]
    if form == "abs":
        return "." + ".".join(body) + dot
    if form == "root":
        return ".".join(body) + dot + (" of root" if v & 1 else "")
    if form == "me":
        if style in ("inline", "raw", "partial"):
            return ".".join(["me"] + body) + dot
        return ".".join(body) + dot + " of me"
    full = ".".join(ref_parts(r, naming)) + dot
    if style in ("raw", "inline"):
        return full
    fs, xs, as_ = r["fsel"], r["xsel"], r["asel"]
    if style == "partial":
        if as_ is not None and fs == "me" and xs == "me":
            return ".".join(["actor", _sel_text(as_, naming)] + body) + dot
        if as_ is None and xs is not None and ((fs == "me" and xs != "main") or (fs == "main" and xs == "main")):
            return ".".join(["frame", _sel_text(xs, naming)] + body) + dot
        style = "of"
    text = ("." if style == "dotof" else "") + ".".join(body) + dot
    framer_default = "main" if xs == "main" else "me"
    if as_ is not None:
        text += " of actor" + ("" if (as_ == "me" and not v & 1) else " " + _sel_text(as_, naming))
        if xs == "me" and fs == "me" and not v & 2:
            return text
    if xs is not None:
        text += " of frame" + ("" if (xs == "me" and not v & 2) else " " + _sel_text(xs, naming))
        if fs == framer_default and not v & 4:
            return text
    if xs == "main" and fs == "main" and v & 8:
        return text + " of framer"      # framer clause given but unnamed: after `of frame main` it defaults to main
    text += " of framer" + ("" if (fs == "me" and not v & 4) else " " + _sel_text(fs, naming))
    return text


def per_text(p, naming):
    if p.get("defaultkey"):
        return '%s ""' % p["tail"]
    return 'k%d "%s"' % (p["id"], ".".join(ref_parts(p, naming)))


def render(prog, naming=None):
    naming = naming or prog["naming"]
    L = ["house h", ""]
    for fr in prog["framers"]:
        for x in fr["frames"]:
            for s in x["stmts"]:
                for src, io in s.get("fors", ()):
                    L.append("  init %s with %s" % (render_ref(src, naming), per_text(io, naming)))
    L.append("")
    for i, fr in enumerate(prog["framers"]):
        line = "  framer %s be %s" % (naming[("F", i)], fr["sched"])
        if fr["sched"] != "aux" and fr["sched"] != "moot":
            line += " at 0.0"
        line += " first %s" % naming[("X", i, fr["first"])]
        if fr["via"]:
            line += " via " + render_ref(fr["via"], naming)
        L.append(line)
        for x in fr["frames"]:
            line = "    frame %s" % naming[("X", i, x["j"])]
            if x["over"] is not None:
                line += " in %s" % naming[("X", i, x["over"])]
            if x["via"]:
                line += " via " + render_ref(x["via"], naming)
            L.append(line)
            for d in x["auxes"]:
                line = "      aux %s" % naming[("F", d["target"])]
                if d["kind"] == "named":
                    line += " as %s" % naming[("T", d["tag"])]
                elif d["kind"] == "mine":
                    line += " as mine"
                if d["via"] == "mine":
                    line += " via mine"
                elif d["via"]:
                    line += " via " + render_ref(d["via"], naming)
                L.append(line)
            for s in x["stmts"]:
                L.append("      " + render_stmt(s, i, naming))
        L.append("")
    return "\n".join(L) + "\n"


def marker(r):
    return 500000000 + r["id"]


def render_stmt(s, i, naming):
    c = s.get("ctx")
    if c and s["op"] != "do":        # a context line before the verb, back to the verbs' own contexts after it
        return "%s\n      %s\n      native" % (c, _render_stmt(s, i, naming))
    t = _render_stmt(s, i, naming)
    return t.replace(" at enter", " at " + c, 1) if c else t


def _render_stmt(s, i, naming):
    op = s["op"]
    R = lambda r: render_ref(r, naming)
    if op == "put":
        return "put %d into %s" % (marker(s["dst"]), R(s["dst"]))
    if op == "set":
        return "set %s %s" % (R(s["dst"]), ("from " + R(s["src"])) if s["src"] else "with %d" % marker(s["dst"]))
    if op == "inc":
        return "inc %s %s" % (R(s["dst"]), ("from " + R(s["src"])) if s["src"] else "with 1")
    if op == "copy":
        return "copy %s into %s" % (R(s["src"]), R(s["dst"]))
    if op == "goto":
        return "go %s" % naming[("X", i, s["target"])]
    if op == "clock":
        tgt = naming[("X", i, s["target"])]
        return {"timeout": "timeout 500.0", "repeat": "repeat 5000", "goel": "go %s if elapsed >= 400.0" % tgt,
                "gore": "go %s if recurred >= 4000" % tgt, "goelgoal": "go %s if elapsed >= goal" % tgt}[s["kind"]]
    if op == "go":
        conds = []
        for n in s["needs"]:
            c = R(n["state"])
            if n["cmp"] in ("is updated", "is changed"):
                c += " " + n["cmp"]
            elif n["cmp"]:
                c += " %s %s" % (n["cmp"], R(n["goal"]) if n["goal"] else "-77")
            conds.append(c)
        return "go %s if %s" % (naming[("X", i, s["target"])], " and ".join(conds))
    if op == "do":
        t = "do vf ref"
        if s["actor"] is not None:
            parts = naming[("A", s["actor"])]
            if (s["actor"] * 7 + len(s["pers"])) % 4 == 0:
                # the name given as an init instead of with `as`: it is taken verbatim, here beginning with a small letter
                t += ' cum name "%s"' % (parts[0] + "".join(x[:1].upper() + x[1:] for x in parts[1:]))
            else:
                t += " as " + " ".join(parts)
        t += " at enter"
        if s["via"]:
            t += " via " + R(s["via"])
        if s["froms"]:
            t += " from " + R(s["froms"][0])
        for src, io in s["fors"]:
            t += " for k%d in %s" % (io["id"], R(src))
        if s["pers"]:
            t += " per " + " ".join(per_text(p, naming) for p in s["pers"])
        return t
    raise ValueError(op)


# --------------------------------------------------------------------------- instances
class Inst(object):
    """a built framer: an original, or a clone of a moot reached through `aux .. as ..`"""

    def __init__(self, key, fi, main, inode, name):
        self.key = key          # structural, independent of names
        self.fi = fi            # AST framer whose frames/acts it holds
        self.main = main        # (parent Inst, frame index in parent's AST framer) or None
        self.inode = inode      # symbolic parts of the framer inode
        self.name = name        # pieces: str | ('F',i) | ('T',k)   (joined they are the framer's name)
        self.children = []      # (frame index, aux index, Inst)


def inode_parts(r):
    if not r:
        return []
    return ref_parts(r)


def instances(prog):
    """all framers that exist after build, derived from the AST alone"""
    out = []

    def insular_tags(fi):
        """tag text pieces of every `as mine` declared in AST framer fi (base name + first free count)"""
        used = []
        tags = {}
        fr = prog["framers"][fi]
        for x in fr["frames"]:
            for a, d in enumerate(x["auxes"]):
                if d["kind"] == "named":
                    used.append((("T", d["tag"]),))
                elif d["kind"] == "mine":
                    n = 1
                    while (("F", d["target"]), str(n)) in used:
                        n += 1
                    used.append((("F", d["target"]), str(n)))
                    tags[(x["j"], a)] = [("F", d["target"]), str(n)]
        return tags

    def expand(inst):
        out.append(inst)
        fr = prog["framers"][inst.fi]
        mine = insular_tags(inst.fi)
        for x in fr["frames"]:
            for a, d in enumerate(x["auxes"]):
                if d["kind"] == "plain":
                    continue
                tagp = [("T", d["tag"])] if d["kind"] == "named" else mine[(x["j"], a)]
                target = prog["framers"][d["target"]]
                if d["via"] == "mine":
                    ino = inode_parts(target["via"])
                else:
                    ino = inode_parts(d["via"])
                child = Inst(inst.key + ((x["j"], a),), d["target"], (inst, x["j"]), ino, inst.name + ["_"] + tagp)
                inst.children.append((x["j"], a, child))
                expand(child)

    for i, fr in enumerate(prog["framers"]):
        if fr["sched"] == "moot":
            continue
        expand(Inst((i,), i, None, inode_parts(fr["via"]), [("F", i)]))
    return out


# --------------------------------------------------------------------------- the syntactic model
def _pre(parts, heads):
    return bool(parts) and parts[0] in heads


def template(prog, inst, xj, parts, act_inode, actor):
    """Which text the resolved path of a reference consists of, as a list of elements:
         str                      literal segment
         ('F',i) ('X',i,j) ('T',k) ('A',k)   the entity's name, verbatim, as one segment
         ('I', pieces)            the name of a framer instance (pieces joined)
         ('AC', k)                actor k's name split at capitals into lower-case segments
       Follows the documented addressing rules: a leading dot is absolute; otherwise the act's inode
       (do-acts only, not for framer./me. paths), then the inodes of the frame and its over frames (not
       for me. paths), then the inodes of the framer and, for clones, of the main frames / main framers
       above it are prepended until one is absolute or framer-relative; finally `framer.me|main`,
       `frame.me|main`, `actor.me` are replaced by the names of the act's own framer / frame / actor
       (main = the frame holding the clone and that frame's framer)."""
    fr = prog["framers"][inst.fi]
    frames = fr["frames"]
    parts = list(parts)
    used_inode = False
    if not parts or parts[0] != "":
        # framer inode chain
        fparts = list(inst.inode)
        main = inst.main
        while main is not None and not _pre(fparts, ("", "framer")):
            pinst, pj = main
            pframes = prog["framers"][pinst.fi]["frames"]
            if _pre(fparts, ("me",)):
                del fparts[0]
            else:
                j = pj
                while j is not None and not _pre(fparts, ("", "framer")):
                    ino = inode_parts(pframes[j]["via"])
                    if ino:
                        fparts = ino + fparts
                        if _pre(fparts, ("me",)):
                            del fparts[0]
                            break
                    j = pframes[j]["over"]
                if _pre(fparts, ("", "framer")):
                    break
            if pinst.inode:
                fparts = list(pinst.inode) + fparts
            main = pinst.main
        if _pre(fparts, ("me",)):
            del fparts[0]
        # frame inode chain
        j = xj
        oparts = inode_parts(frames[j]["via"])
        while j is not None and not _pre(oparts, ("", "framer")):
            if _pre(oparts, ("me",)):
                del oparts[0]
                break
            j = frames[j]["over"]
            if j is not None and frames[j]["via"]:
                oparts = inode_parts(frames[j]["via"]) + oparts
        if act_inode is not None and not _pre(parts, ("framer", "me")):
            iparts = list(act_inode)
            if not iparts and not oparts and not fparts:
                iparts = "framer.me.frame.me.actor.me".split(".")
            if iparts:
                used_inode = True
            parts = iparts + parts
        if not _pre(parts, ("", "framer")):
            if _pre(parts, ("me",)):
                del parts[0]
            else:
                if oparts:
                    used_inode = True
                parts = oparts + parts
            if not _pre(parts, ("", "framer")):
                if fparts:
                    used_inode = True
                parts = fparts + parts
    me_framer = ("I", list(inst.name))
    me_frame = ("X", inst.fi, xj)
    if inst.main is not None:
        main_framer = ("I", list(inst.main[0].name))
        main_frame = ("X", inst.main[0].fi, inst.main[1])
    else:
        main_framer = main_frame = ("MISSING",)
    if isinstance(actor, int):
        actor_me = [("AC", actor)]
    else:
        actor_me = camel_split(actor)
    if parts and parts[0] != "":
        if parts[0] == "framer":
            if parts[1] == "me":
                parts[1] = me_framer
            elif parts[1] == "main":
                parts[1] = main_framer
            if len(parts) >= 3:
                if parts[2] == "frame":
                    if parts[3] == "me":
                        parts[3] = me_frame
                    elif parts[3] == "main":
                        parts[3] = main_frame
                    if len(parts) >= 5 and parts[4] == "actor":
                        if parts[5] == "me":
                            parts[5:6] = actor_me
                elif parts[2] == "actor":
                    if parts[3] == "me":
                        parts[3:4] = actor_me
    if parts and parts[0] == "":
        parts = parts[1:]
    return parts, used_inode


def text_of(elem, naming, sep="."):
    if isinstance(elem, str):
        return elem
    if elem[0] == "I":
        return "".join(p if isinstance(p, str) else naming[p] for p in elem[1])
    if elem[0] == "AC":
        return sep.join(naming[("A", elem[1])])       # parts are lower case already = our own camel split
    if elem[0] == "A":
        return camel_name(naming[elem])
    return naming[elem]


def model_path(tpl, naming):
    return ".".join(text_of(e, naming) for e in tpl)


def occurrences(tpl, key):
    """modes ('v' verbatim / 'c' camel-split) in which entity `key`'s name occurs in the path, in order"""
    out = []
    for e in tpl:
        if isinstance(e, str):
            continue
        if e[0] == "I":
            out += ["v" for p in e[1] if p == key]
        elif e[0] == "AC":
            if key == ("A", e[1]):
                out.append("c")
        elif e == key:
            out.append("v")
    return out


# --------------------------------------------------------------------------- sites
def stmt_refs(s):
    """(ref, act inode or None, actor, kindname) for every reference site of a statement"""
    op = s["op"]
    if op == "put":
        return [(s["dst"], None, BUILTIN["put"])]
    if op == "set":
        a = BUILTIN["setfrom" if s["src"] else "set"]
        return [(s["dst"], None, a)] + ([(s["src"], None, a)] if s["src"] else [])
    if op == "inc":
        a = BUILTIN["incfrom" if s["src"] else "inc"]
        return [(s["dst"], None, a)] + ([(s["src"], None, a)] if s["src"] else [])
    if op == "copy":
        return [(s["src"], None, BUILTIN["copy"]), (s["dst"], None, BUILTIN["copy"])]
    if op == "go":
        out = []
        for n in s["needs"]:
            if n["cmp"] in ("is updated", "is changed"):
                a = "NeedUpdate" if n["cmp"] == "is updated" else "NeedChange"
            else:
                a = BUILTIN["needb"] if not n["cmp"] else BUILTIN["needi" if n["goal"] else "needd"]
            out.append((n["state"], None, a))
            if n["goal"]:
                out.append((n["goal"], None, a))
        return out
    if op == "do":
        actor = s["actor"] if s["actor"] is not None else BUILTIN["do"]
        ino = inode_parts(s["via"]) if s["via"] else []
        out = []
        if s["via"]:
            out.append((s["via"], "NODE", actor))
        for p in s["pers"]:
            out.append((p, ino, actor))
        for src, io in s["fors"]:
            out.append((src, ino, actor))
            out.append((io, ino, actor))
        for r in s["froms"]:
            out.append((r, None, actor))      # `from` sources are resolved before the act's inode is known
        return out
    return []


def sites(prog):
    """every (instance, reference) pair with its template: dict (inst.key, tail) -> info"""
    out = {}
    for inst in instances(prog):
        fr = prog["framers"][inst.fi]
        for x in fr["frames"]:
            for s in x["stmts"]:
                for r, ino, actor in stmt_refs(s):
                    if ino == "NODE":
                        tpl, used = template(prog, inst, x["j"], [], inode_parts(r), actor)
                    else:
                        parts = ref_parts(r)
                        if r.get("defaultkey"):
                            parts = [r["tail"]]
                        tpl, used = template(prog, inst, x["j"], parts, ino, actor)
                    out[(inst.key, r["tail"])] = {"ref": r, "inst": inst, "frame": x["j"], "tpl": tpl, "via": used,
                                                  "stmt": s, "kind": ref_kind(r)}
    return out


def ref_kind(r):
    if r["form"] in ("abs", "root", "me", "main"):
        return r["form"]
    if r["form"] == "actor":
        return "actor"
    return r["form"]


# --------------------------------------------------------------------------- real build / observe / run
class TickCap(KeyboardInterrupt):
    pass


class Built(object):
    pass


def build(text):
    """build with the real Skedder/Builder; returns Built with .ok, .msgs, .skedder, .house"""
    b = Built()
    b.msgs = []
    d = core.scratch_dir("c13")
    path = os.path.join(d, "p.flo")
    with open(path, "w") as f:
        f.write(text)
    sk = skedding.Skedder(name="vf13", period=0.125, real=False, filepath=path, behaviors=[BEHAVIOR])
    b.skedder = sk

    class Spy(object):
        def __init__(self, real):
            self._real = real

        def terse(self, msg):
            b.msgs.append(msg.strip()[:300])
            return self._real.terse(msg)

        def __getattr__(self, name):
            return getattr(self._real, name)
    real = _building.console
    _building.console = Spy(real)
    b.exc = None
    try:
        b.ok = bool(sk.build())
    except core.Watchdog:
        raise
    except Exception as e:
        b.ok = False
        b.exc = e
    finally:
        _building.console = real
        try:
            os.unlink(path)
            os.rmdir(d)
        except OSError:
            pass
    b.house = sk.houses[0] if b.ok and sk.houses else None
    return b


TAIL = re.compile(r"^[rn]\d+$")
ACT_LISTS = ("beacts", "enacts", "renacts", "preacts", "reacts", "exacts", "rexacts")


def _collect(v, out, depth=0):
    if depth > 6:
        return
    if isinstance(v, storing.Share):
        out.append(("share", v.name, v))
    elif isinstance(v, storing.Node):
        out.append(("node", v.name, v))
    elif isinstance(v, acting.Act):
        _collect_act(v, out, depth + 1)
    elif isinstance(v, dict):
        for x in v.values():
            _collect(x, out, depth + 1)
    elif isinstance(v, (list, tuple)):
        for x in v:
            _collect(x, out, depth + 1)


def _collect_act(act, out, depth=0):
    _collect(act.parms, out, depth + 1)
    actor = act.actor
    if isinstance(actor, acting.Actor):
        for k, val in getattr(actor, "__dict__", {}).items():
            if not k.startswith("_") and isinstance(val, (storing.Share, storing.Node)):
                _collect(val, out, depth + 1)


def observe_acts(prog, house):
    """resolved names held by the built acts: (inst.key, tail) -> set of names; plus problems"""
    obs = {}
    problems = []
    built = {}
    tops = [i for i, fr in enumerate(prog["framers"])]
    if len(house.framers) < len(tops):
        return obs, ["fewer built framers than declared"], built

    def walk(inst, fobj):
        built[inst.key] = fobj
        fobjs = list(fobj.frameNames.values())
        afr = prog["framers"][inst.fi]["frames"]
        if len(fobjs) != len(afr):
            problems.append("frame count differs in %s" % fobj.name)
            return
        for x, xo in zip(afr, fobjs):
            found = []
            for lst in ACT_LISTS:
                for act in getattr(xo, lst):
                    _collect_act(act, found)
            for what, name, obj in found:
                tail = name.rstrip(".").split(".")[-1]
                if TAIL.match(tail):
                    obs.setdefault((inst.key, tail), set()).add(name.strip("."))
                elif tail in ("elapsed", "recurred") and name.strip(".").split(".")[-2:-1] in (["state"], ["goal"]):
                    built.setdefault("__clocks__", []).append((inst.key, fobj.name, name.strip(".")))
            if len(xo.auxes) != len(x["auxes"]):
                problems.append("aux count differs in frame %s of %s" % (xo.name, fobj.name))
                continue
        for xj, a, child in inst.children:
            aux = fobjs[xj].auxes[a]
            if not isinstance(aux, framing.Framer):
                problems.append("unresolved aux")
                continue
            walk(child, aux)

    insts = {inst.key: inst for inst in instances(prog)}
    for i in tops:
        if prog["framers"][i]["sched"] == "moot":
            continue
        walk(insts[(i,)], house.framers[i])
    return obs, problems, built


def fill_from_store(sites, obs, shares):
    """sites whose share is not kept by any act (`do .. from`): take the one store share with the tail"""
    bytail = {}
    for n in shares:
        bytail.setdefault(n.split(".")[-1], set()).add(n)
    for sk, info in sites.items():
        if sk not in obs and info["ref"]["role"] in ("do.from", "do.for"):
            obs[sk] = set(bytail.get(sk[1], ()))


def store_names(store):
    """every share and node path in the store, from a walk of the tree (not from anybody's .name)"""
    shares, nodes = {}, set()

    def walk(node, prefix):
        for k, v in node.items():
            p = prefix + [k]
            if isinstance(v, storing.Share):
                shares[".".join(p)] = v
            elif isinstance(v, storing.Node):
                nodes.add(".".join(p))
                walk(v, p)
    walk(store.shares, [])
    return shares, nodes


def run_bounded(b, maxticks=8):
    """run the built skedder for at most maxticks ticks (cap raised from the store stamp hook)"""
    sk = b.skedder
    state = {"n": 0}
    for house in sk.houses:
        orig = house.store.changeStamp

        def wrapper(stamp, _orig=orig, _first=(house is sk.houses[0])):
            r = _orig(stamp)
            if _first:
                state["n"] += 1
                if state["n"] > maxticks:
                    raise TickCap()
            return r
        house.store.changeStamp = wrapper
    exc = None
    try:
        sk.run()
    except core.Watchdog:
        raise
    except BaseException as e:      # noqa
        exc = e
    return exc, state["n"]
