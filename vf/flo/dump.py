"""Structural dump of a built house (framers, frames, acts per context with
their configuration, loggers, logs, servers) as plain JSON-able data, and a
build helper that classifies the outcome of Builder.build()."""
import os

from vf import core

from ioflo.base import building, framing, acting, storing, tasking, logging as iologging, excepting
from ioflo.aid.consoling import getConsole

getConsole().reinit(verbosity=0)

CONTEXT_LISTS = [("beacts", "benter"), ("enacts", "enter"), ("renacts", "renter"), ("preacts", "precur"),
                 ("reacts", "recur"), ("exacts", "exit"), ("rexacts", "rexit")]


def norm(v, depth=0):
    if depth > 6:
        return "<deep>"
    if isinstance(v, storing.Share):
        return "share:" + v.name
    if isinstance(v, storing.Node):
        return "node:" + str(getattr(v, "name", "?"))
    if isinstance(v, framing.Frame):
        return "frame:%s" % v.name
    if isinstance(v, tasking.Tasker):
        return "tasker:" + v.name
    if isinstance(v, acting.Act):
        return dump_act(v, depth + 1)
    if isinstance(v, acting.Actor):
        return "actor:%s:%s" % (type(v).__name__, v.name)
    if isinstance(v, dict):      # "human" is the debugging echo of the command text, not configuration
        return {str(k): norm(x, depth + 1) for k, x in v.items() if k != "human"}
    if isinstance(v, (list, tuple)) or type(v).__name__ in ("oset", "deque", "set"):
        return [norm(x, depth + 1) for x in v]
    if isinstance(v, (int, float, str, bool)) or v is None:
        return v
    if isinstance(v, complex):
        return repr(v)
    return "<%s>" % type(v).__name__


def dump_act(act, depth=0):
    actor = act.actor
    out = {"actor": type(actor).__name__ if isinstance(actor, acting.Actor) else str(actor),
           "name": getattr(actor, "name", None),
           "context": act.context,
           "nact": isinstance(act, acting.Nact),
           "side": isinstance(act, acting.SideAct),
           "parms": norm(act.parms, depth + 1),
           "inode": act.inode}
    if isinstance(actor, acting.Actor):
        attrs = {}
        for k, v in vars(actor).items():
            if k.startswith("_") or k in ("name", "store"):
                continue
            if isinstance(v, (storing.Share, storing.Node)):
                attrs[k] = norm(v)
            elif isinstance(v, (int, float, str, bool)) or v is None:
                attrs[k] = v
        out["attrs"] = attrs
        tr = getattr(actor, "_tracts", None)
        if tr:
            out["tracts"] = [dump_act(a, depth + 1) for a in tr]
    return out


def dump_frame(f):
    out = {"over": f.over.name if isinstance(f.over, framing.Frame) else f.over,
           "unders": [u.name if isinstance(u, framing.Frame) else u for u in f.unders],
           "next": f.next_.name if isinstance(f.next_, framing.Frame) else f.next_,
           "inode": getattr(f, "inode", None),
           "outline": [x.name for x in getattr(f, "outline", [])],
           "auxes": [a.name if isinstance(a, tasking.Tasker) else norm(a) for a in f.auxes]}
    for attr, ctx in CONTEXT_LISTS:
        out[ctx] = [dump_act(a) for a in getattr(f, attr)]
    return out


def dump_tasker(t):
    if isinstance(t, framing.Framer):
        return {"kind": "framer", "schedule": t.schedule, "period": t.period,
                "first": t.first.name if isinstance(t.first, framing.Frame) else t.first,
                "inode": t.inode, "original": t.original, "insular": t.insular, "razeable": t.razeable,
                "frames": {name: dump_frame(f) for name, f in t.frameNames.items()},
                "frame_order": list(t.frameNames.keys()),
                "auxes": sorted(a for a in t.auxes.keys()), "moots": sorted(t.moots.keys())}
    out = {"kind": type(t).__name__, "schedule": t.schedule, "period": t.period}
    for k, v in vars(t).items():
        if k in ("runner", "store", "stamp", "path", "timer", "cycleTimer", "flushStamp", "cycleStamp") or k.startswith("_"):
            continue
        if isinstance(v, (int, float, str, bool, tuple)) or v is None:
            out[k] = norm(v)
    if isinstance(t, iologging.Logger):
        out["logs"] = []
        for log in t.logs:
            out["logs"].append({"name": log.name, "kind": log.kind, "rule": log.rule, "baseFilename": log.baseFilename,
                                "loggees": {tag: norm(sh) for tag, sh in log.loggees.items()},
                                "fields": norm(getattr(log, "fields", None))})
    return out


def dump_house(house):
    return {"name": house.name,
            "order": {"fronts": [t.name for t in house.fronts], "mids": [t.name for t in house.mids],
                      "backs": [t.name for t in house.backs], "slaves": [t.name for t in house.slaves],
                      "auxes": [t.name for t in house.auxes], "moots": [t.name for t in house.moots]},
            "taskers": {t.name: dump_tasker(t) for t in house.taskers},
            "shares": dump_store(house.store)}


def dump_store(store):
    out = {}

    def walk(node, prefix):
        for k, v in node.items():
            if isinstance(v, storing.Share):
                name = v.name
                if name.startswith((".meta.", ".ioflo.")) or name.lstrip(".") in ("time", "realtime", "datetime"):
                    continue
                out[name] = {f: norm(x) for f, x in v.items()}
            elif isinstance(v, storing.Node):
                walk(v, prefix + "." + k)
    walk(store.shares, "")
    return out


def build_text(text, behaviors=("vf.flo.recorder",), timeout=None):
    """returns (outcome, detail, houses): outcome in built / failed / parse-error / resolve-error / exception"""
    d = core.scratch_dir("bld")
    path = os.path.join(d, "p.flo")
    with open(path, "w") as f:
        f.write(text)
    b = building.Builder(fileName=path, behaviors=list(behaviors))
    try:
        try:
            ok = b.build()
        except excepting.ParseError as e:
            return "parse-error", e, None
        except excepting.ResolveError as e:
            return "resolve-error", e, None
        except core.Watchdog:
            raise
        except Exception as e:
            return "exception", e, None
        return ("built" if ok else "failed"), None, (b.houses if ok else None)
    finally:
        try:
            if b.currentFile and not b.currentFile.closed:
                b.currentFile.close()
        except Exception:
            pass
        try:
            os.unlink(path)
            os.rmdir(d)
        except OSError:
            pass
