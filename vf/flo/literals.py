"""C17 helpers: literal shape grammar, an independent classifier of the
documented conversion order, value <-> literal rendering for the round trip,
and the harness behaviour `do vf lit ...` that records what it is given.

The classifier is written from the doc strings / comments, not from ioflo's
code: it imports nothing from ioflo (only the behaviour at the bottom of the
file touches ioflo, through the public Doer extension point).

Documented order (property C17 statement + doc strings of the Convert2* chain
in ioflo/base/building.py, "Need goal wants unitary type not path or point"):

  data contexts (init, put, set, inc, do with/per/cum -> parseDirect):
      quoted string -> none -> true/yes/false/no -> path text -> lat/lon
      -> typed points -> decimal int -> hex int -> float -> complex -> error
  need goals (parseNeedGoal):
      quoted string -> none -> true/yes/false/no -> lat/lon
      -> decimal int -> hex int -> float -> complex -> indirect (share path) / error
  bid periods (buildBid: "period: number | indirectOne"):
      decimal int -> hex int -> float -> complex -> indirect (share path) / error

Corners the documentation does not fix are returned as kind "ambiguous"
(optionally with the list of acceptable alternatives):
  * hex digits without 0x prefix that contain a letter (`ff`, `1e3`, `0b11`):
    "hex" is documented, its syntax is not; `1e3` is both such a hex numeral
    and a float, so both 483 and 1000.0 are acceptable,
  * digit group underscores, non-ASCII digits, embedded white space,
  * point components written with an exponent or a leading dot,
  * a trailing-dot (node) path where a share is wanted (need goal, bid period),
  * stray quote characters.
"""
import itertools
import math
import re

RESERVED = ['to', 'by', 'with', 'from', 'per', 'for', 'cum', 'qua', 'via',
            'as', 'at', 'in', 'of', 'on', 're', 'is',
            'if', 'be', 'into', 'and', 'not', '+-',
            '==', '<', '<=', '>=', '>', '!=']          # documented connectives/comparisons

DIGITS = "0123456789"
HEXDIGITS = "0123456789abcdefABCDEF"
LETTERS = "abcdefghijklmnopqrstuvwxyzABCDEFGHIJKLMNOPQRSTUVWXYZ"

DATA_STEPS = ("quoted", "nonebool", "path", "latlon", "point")
NEED_STEPS = ("quoted", "nonebool", "latlon")
NUM_STEPS = ()

# the Convert2* functions and the steps their names/doc strings announce before
# the number steps (Int, hex, Float, Complex)
FUNC_STEPS = {
    "Convert2Num": (),
    "Convert2CoordNum": ("latlon",),
    "Convert2BoolCoordNum": ("nonebool", "latlon"),
    "Convert2StrBoolCoordNum": ("quoted", "nonebool", "latlon"),
    "Convert2PointNum": ("point",),
    "Convert2CoordPointNum": ("latlon", "point"),
    "Convert2BoolCoordPointNum": ("nonebool", "latlon", "point"),
    "Convert2PathCoordPointNum": ("path", "latlon", "point"),
    "Convert2BoolPathCoordPointNum": ("nonebool", "path", "latlon", "point"),
    "Convert2StrBoolPathCoordPointNum": ("quoted", "nonebool", "path", "latlon", "point"),
}

POINT_TYPES = {"xy": "Pxy", "xyz": "Pxyz", "ne": "Pne", "ned": "Pned", "fs": "Pfs", "fsb": "Pfsb"}


class Exp(object):
    """expected outcome of converting one literal in one context"""
    __slots__ = ("kind", "value", "alts")

    def __init__(self, kind, value=None, alts=None):
        self.kind = kind        # quoted none bool path latlon point2 point3 dec hex float infnan complex
        #                         indirect error ambiguous
        self.value = value      # python value; points: Point(...)
        self.alts = alts        # for ambiguous: list of Exp or None (= anything goes)

    @property
    def is_value(self):
        return self.kind not in ("indirect", "error", "ambiguous")

    def __repr__(self):
        return "Exp(%s, %r)" % (self.kind, self.value)


class Point(object):
    """model of a typed point: type name, field names, float values"""
    __slots__ = ("tname", "fields", "values")

    def __init__(self, fam, values):
        self.tname = POINT_TYPES[fam]
        self.fields = tuple(fam)
        self.values = tuple(float(v) for v in values)

    def __repr__(self):
        return "%s(%s)" % (self.tname, ", ".join("%s=%r" % fv for fv in zip(self.fields, self.values)))


# ------------------------------------------------------------------ scanners
def _digits(s):
    return s != "" and all(c in DIGITS for c in s)


def _ident(s):
    return (s != "" and (s[0] in LETTERS or s[0] == "_")
            and all((c in LETTERS or c in DIGITS or c == "_") for c in s))


def is_path(s, trailing=True):
    """store path text: identifiers joined by dots, optional leading dot,
    optional trailing dot (node path) when `trailing`"""
    if not s:
        return False
    body = s[1:] if s[0] == "." else s
    if trailing and body.endswith("."):
        body = body[:-1]
    return all(_ident(p) for p in body.split("."))


def _unsigned(s):
    return s[1:] if s[:1] in ("+", "-") else s


def _pointnum(s):
    """number inside a point literal as in `10x5y3z`, `30.5n10.4e4.2d`, `-5n0e`"""
    s = _unsigned(s)
    if "." in s:
        a, b = s.split(".", 1)
        return _digits(a) and (b == "" or _digits(b))
    return _digits(s)


_FLOAT = re.compile(r"[+-]?(\d+(\.\d*)?|\.\d+)([eE][+-]?\d+)?\Z")
_XF = r"[+-]?(?:\d+\.?\d*|\.\d+)(?:[eE][+-]?\d+)?"
_XPOINT = [re.compile(r"%s[%s]%s[%s](?:%s[%s])?\Z" % (_XF, a + a.upper(), _XF, b + b.upper(), _XF, c + c.upper()))
           for a, b, c in ("xyz", "ned", "fsb")]


def _floatsyntax(s):
    return bool(_FLOAT.match(s))


def _infnan(s):
    return _unsigned(s).lower() in ("inf", "infinity", "nan")


def parse_latlon(text):
    i = 0
    while i < len(text) and text[i] in DIGITS:
        i += 1
    if i == 0 or i >= len(text):
        return None
    hemi = text[i]
    if hemi not in "NESWnesw":
        return None
    rest = text[i + 1:]
    a, dot, b = rest.partition(".")
    if not (dot and _digits(a) and _digits(b)):
        return None
    v = float(text[:i]) + float(rest) / 60.0      # fracdeg = deg + min/60.0
    return -v if hemi in "SWsw" else v


def parse_point(text):
    """-> Point | "ambiguous" | None"""
    parts, letters, cur = [], [], ""
    for ch in text:
        if ch in LETTERS:
            parts.append(cur)
            letters.append(ch.lower())
            cur = ""
        else:
            cur += ch
    if cur == "" and letters:
        fam = "".join(letters)
        if fam in POINT_TYPES and all(_pointnum(p) for p in parts):
            return Point(fam, parts)
    for rx in _XPOINT:
        if rx.match(text):
            return "ambiguous"
    return None


def parse_complex(text):
    t = text
    if t.startswith("(") and t.endswith(")"):
        t = t[1:-1]
    if t is not text and (_floatsyntax(t) or _infnan(t)):
        return complex(text)         # python's complex() takes a parenthesised real: (0), (1.5), (1e3), (inf)
    if not t or t[-1] not in "jJ":
        return None
    body = t[:-1]
    if _floatsyntax(body):
        return complex(text)
    k = max(body.rfind("+"), body.rfind("-"))
    while k > 0 and body[k - 1] in "eE":
        k = max(body.rfind("+", 0, k), body.rfind("-", 0, k))
    if k <= 0:
        return None
    if _floatsyntax(body[:k]) and _floatsyntax(body[k:]):
        return complex(text)
    return None


def _bare_j(text):
    """`j`, `-j`, `1+j`: python reads an imaginary unit; the documentation is silent"""
    t = text
    if t.startswith("(") and t.endswith(")"):
        t = t[1:-1]
    if not t or t[-1] not in "jJ":
        return False
    body = t[:-1]
    if body in ("", "+", "-"):
        return True
    return body[-1] in "+-" and len(body) > 1 and body[-2] not in "eE+-" and _floatsyntax(body[:-1])


# Does the implementation's hex step read hex digits *without* the 0x prefix?  The documentation names the step
# ("hex") but not its syntax, so the policy is observed on the real code at the start of every worker (probe() with
# literals that can only be hex: `ff`, `AB`); once it is known, the documented ORDER (hex before float) decides literals
# that are both bare hex and float syntax (`1e3`): hex when bare hex is hex, float when it is not.  None = not observed.
BAREHEX_IS_HEX = None


def probe(convert2num):
    """observe the bare-hex policy of the real Convert2Num"""
    global BAREHEX_IS_HEX
    seen = []
    for t, v in (("ff", 255), ("AB", 171), ("1f00", 7936)):
        try:
            r = convert2num(t)
            seen.append(type(r) is int and r == v)
        except ValueError:
            seen.append(False)
    BAREHEX_IS_HEX = True if all(seen) else (False if not any(seen) else None)
    return BAREHEX_IS_HEX


def classify_number(text):
    """decimal int -> hex int -> float -> complex -> None ; Exp"""
    u = _unsigned(text)
    if _digits(u):
        return Exp("dec", int(text, 10))
    if u[:2] in ("0x", "0X") and len(u) > 2 and all(c in HEXDIGITS for c in u[2:]):
        return Exp("hex", int(text, 16))
    barehex = u != "" and all(c in HEXDIGITS for c in u)
    rest = None
    if _floatsyntax(text):
        rest = Exp("float", float(text))
    elif _infnan(text):
        rest = Exp("infnan", float(text))
    else:
        c = parse_complex(text)
        if c is not None:
            rest = Exp("complex", c)
        elif _bare_j(text):
            rest = Exp("ambiguous", alts=[Exp("complex", complex(text)), Exp("error")])
        else:
            # the last documented step is python's own complex(): where this syntax model and python disagree (infj,
            # 1+nanj, digit-group underscores ...) both readings are accepted rather than raising an alarm
            try:
                rest = Exp("ambiguous", alts=[Exp("complex", complex(text)), Exp("error")])
            except ValueError:
                pass
    if barehex:       # hex numeral without prefix: documented step, undocumented syntax
        if rest is not None and rest.kind == "float" and BAREHEX_IS_HEX is True:
            return Exp("hex", int(text, 16))        # both readings possible: the documented order puts hex first
        if rest is not None and rest.kind == "float" and BAREHEX_IS_HEX is False:
            return rest
        return Exp("ambiguous", alts=[Exp("hex", int(text, 16)), rest or Exp("error")])
    return rest


def classify(text, steps):
    """Expected outcome of the documented chain made of `steps` followed by
    the number steps."""
    if text == "":
        return Exp("error")
    if not text.isascii():
        return Exp("ambiguous")
    if "quoted" in steps:
        if len(text) >= 2 and text[0] in "\"'" and text[-1] == text[0] and text[0] not in text[1:-1]:
            return Exp("quoted", text[1:-1])
        if '"' in text or "'" in text:
            return Exp("ambiguous")         # stray / unbalanced quote characters
    if any(c.isspace() for c in text):
        return Exp("ambiguous")
    if "nonebool" in steps:
        low = text.lower()
        if low == "none":
            return Exp("none", None)
        if low in ("true", "yes"):
            return Exp("bool", True)
        if low in ("false", "no"):
            return Exp("bool", False)
    if "path" in steps and is_path(text):
        return Exp("path", text)
    if "_" in text:
        return Exp("ambiguous")
    if "latlon" in steps:
        v = parse_latlon(text)
        if v is not None:
            return Exp("latlon", v)
    if "point" in steps:
        p = parse_point(text)
        if p == "ambiguous":
            return Exp("ambiguous")
        if p is not None:
            return Exp("point%d" % len(p.values), p)
    n = classify_number(text)
    if n is not None:
        return n
    return Exp("error")


def _indirect_fallback(text, e):
    """need goal / bid period: what is not a direct value is an indirect share path"""
    if e.kind == "error":
        if text in RESERVED:
            return e
        if is_path(text, trailing=False):
            if text.split(".")[0] in ("framer", "frame", "actor", "me", "main", "goal"):
                return Exp("ambiguous")       # relative addressing keywords: other rules apply
            return Exp("indirect", text)
        if is_path(text, trailing=True):
            return Exp("ambiguous")
        return e
    if e.kind == "ambiguous" and e.alts:
        return Exp("ambiguous", alts=[_indirect_fallback(text, a) for a in e.alts])
    return e


def classify_ctx(text, ctxkind):
    """ctxkind: data | need | num"""
    if ctxkind == "data":
        return classify(text, DATA_STEPS)
    if ctxkind == "need":
        return _indirect_fallback(text, classify(text, NEED_STEPS))
    if ctxkind == "num":
        return _indirect_fallback(text, classify(text, NUM_STEPS))
    raise ValueError(ctxkind)


# ------------------------------------------------------------------ comparison with observed values
def describe(v):
    """JSON-able description of an observed python value"""
    if isinstance(v, tuple) and hasattr(v, "_fields"):
        return {"type": type(v).__name__, "fields": list(v._fields),
                "values": [repr(x) for x in v], "vtypes": [type(x).__name__ for x in v]}
    return {"type": type(v).__name__, "repr": repr(v)[:200]}


def describe_exp(e):
    if e.kind == "ambiguous":
        return {"kind": "ambiguous", "alts": [describe_exp(a) for a in e.alts] if e.alts else None}
    if not e.is_value:
        return {"kind": e.kind, "value": e.value}
    if isinstance(e.value, Point):
        return {"kind": e.kind, "type": e.value.tname, "fields": list(e.value.fields),
                "values": [repr(x) for x in e.value.values]}
    return {"kind": e.kind, "type": type(e.value).__name__, "repr": repr(e.value)[:200]}


def same_value(expected, observed):
    """-> None if equal else divergence kind ('wrong-type' | 'wrong-value')"""
    if isinstance(expected, Point):
        if not (isinstance(observed, tuple) and hasattr(observed, "_fields")):
            return "wrong-type"
        if type(observed).__name__ != expected.tname or tuple(observed._fields) != expected.fields:
            return "wrong-type"
        if any(type(x) is not float for x in observed):
            return "wrong-type"
        if [repr(x) for x in observed] != [repr(x) for x in expected.values]:
            return "wrong-value"
        return None
    if type(observed) is not type(expected):
        return "wrong-type"
    if isinstance(expected, (float, complex)):
        return None if repr(observed) == repr(expected) else "wrong-value"
    return None if observed == expected else "wrong-value"


def _tclass(v):
    return "point" if (isinstance(v, tuple) and hasattr(v, "_fields")) else type(v).__name__


def matches(e, outcome):
    """outcome: ("value", v) | ("indirect", path) | ("error", info).
    -> (ok, divergence)"""
    if e.kind == "ambiguous":
        if not e.alts:
            return True, None
        for a in e.alts:
            if matches(a, outcome)[0]:
                return True, None
        return False, "outside-alternatives"
    what = outcome[0]
    if e.kind == "error":
        if what == "error":
            return True, None
        if what == "indirect":
            return False, "accepted-as-indirect"
        return False, "accepted-as-%s" % _tclass(outcome[1])
    if e.kind == "indirect":
        if what == "indirect":
            return True, None
        if what == "error":
            return False, "rejected"
        return False, "direct-%s" % _tclass(outcome[1])
    if what == "error":
        return False, "rejected"
    if what == "indirect":
        return False, "taken-as-indirect"
    d = same_value(e.value, outcome[1])
    return d is None, d


# ------------------------------------------------------------------ value -> literal (round trip)
def render_value(v, quote='"', style=0):
    """literal form of a python value (None, bool, int, finite float/complex,
    quote-free str, Point)"""
    if v is None:
        return ("none", "None", "NONE")[style % 3]
    if v is True:
        return ("true", "True", "yes", "Yes", "TRUE")[style % 5]
    if v is False:
        return ("false", "False", "no", "No", "FALSE")[style % 5]
    if isinstance(v, str):
        assert '"' not in v and "'" not in v
        return quote + v + quote
    if isinstance(v, Point):
        letters = v.fields if style % 2 == 0 else tuple(x.upper() for x in v.fields)
        out = ""
        for x, l in zip(v.values, letters):
            r = repr(x)
            assert "e" not in r and "n" not in r, r
            if style % 3 == 1 and r.endswith(".0"):
                r = r[:-2]              # 10.0 -> 10  (documented form `10x5y`)
            out += r + l
        return out
    if isinstance(v, (int, float, complex)):
        return repr(v)
    raise TypeError(v)


# ------------------------------------------------------------------ shape grammar
def _cases(word):
    return sorted(set("".join(p) for p in itertools.product(*[(c.lower(), c.upper()) for c in word])))


def grammar():
    """-> list of (text, family); exhaustive over the shape grammar, the same for every seed"""
    out = []

    def add(fam, *texts):
        for t in texts:
            out.append((t, fam))

    signs = ["", "+", "-"]
    # decimal integers: signs x leading zeros x magnitudes
    for s in signs:
        for d in ["0", "1", "7", "9", "10", "12", "42", "99", "100", "255", "256", "1000", "4096", "65535", "65536",
                  "123456789", "2147483647", "2147483648", "4294967296", "9223372036854775807",
                  "9223372036854775808", "100000000000000000000", "340282366920938463463374607431768211456"]:
            for z in ["", "0", "00", "000"]:
                add("dec", s + z + d)
    # hex with prefix
    for s in signs:
        for p in ["0x", "0X"]:
            for d in ["0", "1", "9", "a", "A", "f", "F", "10", "1F", "1f", "fF", "ff", "FF", "7f", "80", "100", "dead", "DEAD",
                      "BeeF", "cafe", "0010", "00ff", "1e3", "1E3", "e", "E0", "0e0", "abcdef", "ABCDEF", "7fffffff",
                      "ffffffff", "123456789abcdef", "ffffffffffffffffffff", "b11", "d", "1d"]:
                add("hex", s + p + d)
    add("hex-near", "0x", "0X", "-0x", "0xg", "0xG", "0x1g", "0xfg", "0x1.8", "0x1.8p1", "0x-1", "0x+1", "0x1F.", "0x1Fh",
        "1Fh", "0xx1", "00x1F", "0x1F0x", "0h1F", "$1F", "&h1F", "0x,1", "0x1,")
    # hex digits without prefix (ambiguous by documentation)
    for s in signs:
        add("barehex", *[s + d for d in ["1f", "1F", "ff", "FF", "face", "dead", "BEEF", "cafe", "a", "b", "c", "d", "e", "f",
                                         "A", "F", "1a", "a1", "1a2b", "0b11", "0B1", "1d", "0d", "1e", "e1", "0e", "abc",
                                         "1e3", "1E3", "12e5", "0e0", "00e1", "1e05", "9e9", "1e10", "5E2", "123e4",
                                         "1e400", "0b", "deadbeef", "00ff", "f00d", "bad", "add", "fed", "1ee1"]])
    # floats
    mants_dot = ["0.", ".0", "0.0", "1.", ".5", "5.", "1.5", "00.5", "3.14159", "123.456", "100.",
                 ".001", "007.5", "1.7976931348623157", "4.9", "0.30000000000000004"]
    exps_any = ["", "e0", "e3", "E3", "e+3", "e-3", "E-3", "e03", "e+10", "E12", "e308", "e-324",
                "e-400", "e400"]
    for s in signs:
        for m in mants_dot:
            for x in exps_any:
                add("float", s + m + x)
        for m in ["0", "1", "5", "10", "12", "007", "123"]:
            for x in ["e+3", "e-3", "E+3", "E-3", "e+0", "e-0", "e+10", "E-10", "e+308", "e-400", "e+400"]:
                add("float", s + m + x)
    add("float-near", "1.2.3", "1..", "..1", "1..2", "1e+", "1e-", "1.5e", "1.5e+", "1.5E", ".", "+.", "-.", ".e1", ".e+1",
        "+", "-", "--1", "++1", "+-1", "-+1", "1-", "1+", "1.5-", "1,5", "1.5,", ",5", "1.5f", "1.5d0", "1.5e1.5",
        "1e1e1", "1.0e+-1", "1.5.e1", "1.5e+1.", "1.5x", "1.5%", "1/2", "1*2", "1e+3e", "0.5.", "1:30", "$1.5", "1.5$",
        "1.e", "1.5e++1", "e+3", ".+1", "1.-1", "1.5ee3", "1.5e+3+", "1.0f", "1.0L", "1.0l",
        "1,000.5", "1.000,5")
    # inf / nan words
    for s in signs:
        for w in ["inf", "Inf", "INF", "iNf", "infinity", "Infinity", "INFINITY", "nan", "NaN", "NAN", "Nan"]:
            add("infnan", s + w)
        for w in ["infinit", "infinite", "infinityy", "in", "na", "nane", "nnan", "infx", "1inf", "inf1", "nan1",
                  "inf.", "nan.", ".inf", ".nan", "inf.0", "1nan"]:
            if s + w not in RESERVED:
                add("infnan-near", s + w)
    # complex
    for s in signs:
        for im in ["1j", "1J", "0j", "2.5j", ".5j", "5.j", "1e3j", "1E3J", "1.5e+3j", "1.5e-3J", "10j", "007j", "123.456j"]:
            add("complex", s + im)
        for re_ in ["1", "0", "1.5", ".5", "2.", "1e3", "1.5e-3", "10"]:
            for sg in "+-":
                for im in ["2j", "2.5J", ".5j", "1e3j", "1.5e-3j", "0j"]:
                    add("complex", s + re_ + sg + im)
                    add("complex", "(" + s + re_ + sg + im + ")")
    add("complex", "(1j)", "(-1j)", "(2.5J)", "(0j)")
    add("complex-near", "1i", "1I", "1+2i", "1+2", "1-2", "1jj", "1j2", "1j+2", "1+2jj", "(1+2j", "1+2j)", "((1+2j))", "()",
        "(j", "1+-2j", "1++2j", "1+2j+3j", "1k", "2.5i", "1+2*j", "1,2j", "(1,2)", "1+2j.", "1.+.j", "+j+", "1e+j",
        "1+2ej", "(1)j", "1(j)", "[1+2j]", "1+2j;")
    # none / booleans, every mix of cases
    for w in ("none",):
        add("none", *_cases(w))
    for w in ("true", "yes", "false", "no"):
        add("bool", *_cases(w))
    add("bool-near", "non", "nones", "nonee", "null", "nil", "Null", "NIL", "tru", "truee", "ttrue", "true1", "1true", "0true",
        "true.", ".true", "true.false", "y", "Y", "n", "N", "t", "T", "yess", "yea", "nope", "noo", "off", "OFF", "On1",
        "falsee", "fals", "false0", "no.", ".no", "yes.", ".yes", "none.", ".none", "None.x", "-true", "+yes", "-no",
        "!true", "~no", "true!", "yes?", "not1", "true-", "no-", "-none", "none-", "no,", ",no", "true,false")
    # quoted strings of both kinds
    contents = ["", "a", "abc", "hello world", "  lead", "trail  ", " ", "123", "-5", "1.5", "1e3", "0x1F", "ff", "true",
                "None", "none", "No", "yes", "FALSE", ".a.b", "a.b.", "a.b", "12N30.5", "80W30.75", "1x2y", "1n2e3d", "1j",
                "(1+2j)", "inf", "nan", "#notcomment", "a#b", "# x", "with", "into", "+-", "==", "to", "a  b   c",
                "a,b", "a;b", "a\\b", "tab\there", "{}", "%s", "{0}", "[1,2]", "a=b", "<>", "!@$%^&*()", "~`|", "a:b", "/x/y",
                "0", "00", "-", "+", ".", "..", "e", "E", "x", "_", "__a__", "A" * 64, "0123456789" * 8]
    for c in contents:
        add("quoted", '"%s"' % c, "'%s'" % c)
    for c in ["it's", "'", "''", "'a'", "a'b'c", "don't can't", "'1'", "'true'"]:
        add("quoted", '"%s"' % c)
    for c in ['say "hi"', '"', '""', '"a"', 'a"b"c', '"1"', '"true"']:
        add("quoted", "'%s'" % c)
    # paths
    idents = ["a", "ab", "a1", "_a", "a_b", "A", "Zz9", "x", "q", "g0", "_", "__", "a_", "aB_9z", "z" * 14]      # (longer identifier runs make ioflo's path regex backtrack exponentially on near misses)
    for i in idents:
        add("path", i, "." + i, i + ".", "." + i + ".")
    for a, b in [("a", "b"), ("ab", "cd"), ("a1", "b2"), ("_a", "_b"), ("A", "B"), ("x", "y_z"), ("top", "sub")]:
        add("path", a + "." + b, "." + a + "." + b, a + "." + b + ".", "." + a + "." + b + ".")
    add("path", "a.b.c", ".a.b.c", "a.b.c.", ".a.b.c.", "a.b.c.d.e.f.g.h", ".x.y_z.w0", "meta.name", ".meta.failure",
        "goal.heading", "state.depth", "x1.x2.x3", "true.x", "no.way", "none.x", ".yes.no", "inf.x", "nan.x", "e1.e2",
        "x5y", "n5e", "f5s", "x", "xy", "xyz", "ne", "ned", "fs", "fsb", "N", "E", "S", "W", "j", "J", "x1F", "X1f", "e3",
        "E3", "e", "g", "G", "o7", "h1F", "d0", "n30", "N30", "n30.e5")
    add("path-near", ".", "..", "...", "a..b", "..a", "a..", ".a..", ".a..b", "a.b..", "a.1", "a.1b", ".1a", "a.b.1", "a-b",
        "a.b-c", "a/b", "a:b", "a,b", "a.b,", ",a", "$a", "a$", "a.$b", "a!", "a.b!", "@a", "a@b", "a.b.c-", "-a", "+a",
        "-a.b", "a+b", "a*b", "a.*", "a.b?", "a%", "a.b=", "a=b", "a.(b)", "[a]", "a[0]", "a.b[0]", "{a}", "a|b", "a&b",
        "a~", "^a", "a;", "a;b", ".a;", "a..b.c", "9a.b", "a.9", ".9", "a.-b", "a.+b", "a.,b")
    # lat / lon
    for d in ["0", "5", "12", "012", "120", "179", "00", "1000"]:
        for h in "NESWnesw":
            for m in ["0.0", "30.5", "10.5", "59.999", "00.5", "75.125", "0.000001", "30.50"]:
                add("latlon", d + h + m)
    add("latlon", "1e3.5", "1E3.0", "12e30.5", "0e0.0", "0S0.0", "0w0.0")
    for h in "NESWnesw":
        add("latlon-near", "12" + h + "30", "12" + h + ".5", "12" + h + "30.", "12" + h, "-12" + h + "30.5", "+12" + h + "30.5",
            "12.5" + h + "30.5", "12" + h + h + "30.5", "12" + h + "30.5" + h, "12" + h + "-30.5", "12" + h + "+30.5",
            "12" + h + "30.5.5", "12" + h + "3e1.5", "12" + h + "30,5", "12," + h + "30.5", "12" + h + ",30.5",
            "12" + h + "30.5,", "1,2" + h + "30.5")
    add("latlon-near", "12,30.5", "0,0.0", "120,10.5", "80,30.75", "12X30.5", "12Z30.5", "12o30.5", "12d30.5", "12:30.5",
        "12m30.5", "12;30.5", "12_30.5", "12N30.5E4", "12n30.5e4", "12N30.5D",
        "12deg30.5", "12.30.5", "N12.5", "12,,30.5", ",30.5", "12,", "12,.5")
    # typed points
    nums = ["0", "10", "-5", "+3", "1.5", "-0.25", "2.", "007", "-0", "-120.75"]
    fams = ["xyz", "ned", "fsb"]
    for fam in fams:
        for a in nums:
            for b in nums:
                for style in (0, 1, 2):
                    l = [fam[0], fam[1]]
                    if style == 1:
                        l = [c.upper() for c in l]
                    elif style == 2:
                        l = [l[0].upper(), l[1]]
                    add("point2", a + l[0] + b + l[1])
        sub = ["0", "-5", "+3", "1.5", "2."]
        for a in sub:
            for b in sub:
                for c in sub:
                    for style in (0, 1):
                        l = list(fam) if style == 0 else [x.upper() for x in fam]
                        add("point3", a + l[0] + b + l[1] + c + l[2])
        add("point3", "1" + fam[0].upper() + "2" + fam[1] + "3" + fam[2].upper(),
            "1.5" + fam[0] + "-2.5" + fam[1].upper() + "+3.5" + fam[2])
    add("point2", "10n5e", "15n10e", "-5n0e", "12N30.5E", "12n30.5e")
    add("point3", "30.5n10.4e4.2d", "1.25n100.5e0d", "10x5y3z")
    for fam in fams:
        a, b, c = fam
        add("point-near", "5" + a + b, a + b, "5" + a, "5" + a + "5", "5" + b + "5" + a, "1" + a + "2" + c, "1" + a + "2" + b + "3",
            "1" + a + "2" + b + "3" + c + "4", "1" + a + "2" + b + "3" + c + "4" + a, "1" + a + a + "2" + b, "1" + a + "2" + b + b,
            "1.5." + a + "2" + b, "1" + a + "2.5.5" + b, "--1" + a + "2" + b, "1" + a + "--2" + b, "1" + a + "+-2" + b,
            "1" + a + "2" + b + "3" + a, "1" + b + "2" + c, "1" + a + "2" + b + "3" + b, "1-" + a + "2" + b, "1" + a + "2-" + b,
            "1" + a + "2" + b + ".", "." + "1" + a + "2" + b + ".", "1" + a + "," + "2" + b, "1," + a + "2" + b,
            "1" + a + "2" + b + ",", "1" + a + "2," + b, "(1" + a + "2" + b + ")", "1" + a + "/2" + b, "1" + a + "2" + b + "!",
            "1" + a + "2" + b + "3" + c + ",")
        # the axis letter replaced by a comma ("include letters with the axis")
        add("point-near", "1,2" + b, "1" + a + "2,", "1,2,", "10,5,", "1.5,-2.5,", "1,2" + b + "3" + c, "1" + a + "2,3" + c,
            "1" + a + "2" + b + "3,", "1,2,3,", "1,2,3" + c, ",5" + b, ",5,", "-5,0,")
        add("point-amb", ".5" + a + "2" + b, "1" + a + ".5" + b, "1e3" + a + "2" + b, "1" + a + "2e3" + b, "1.5e-3" + a + "2" + b + "3" + c,
            "1" + a + "2" + b + ".5" + c, "1" + a + "2" + b + "1e1" + c)
    add("point-near", "1x2e", "1n2y", "1f2y", "1x2s", "1n2e3z", "1x2y3d", "1f2s3d", "1x2y3b", "1n2s", "1f2e", "1y2x", "1e2n",
        "1s2f", "1z2y3x", "1d2e3n", "1x2y3z4w", "1u2v", "1r2t", "1a2b!", "1lat2lon", "1x_2y", "1x2y_")
    add("underscore", "1_0", "1_000", "1_000.5", "0x_1f", "0x1_f", "1__0", "1_", "1e1_0", "1_0j", "1_0x2y")
    # dedupe, keep first family
    seen, res = set(), []
    for t, fam in out:
        if t in seen or t in RESERVED:
            continue
        seen.add(t)
        res.append((t, fam))
    return res


def scriptable(text):
    """can the literal be written as ONE FloScript token that the tokenizer
    hands to the converter unchanged?  (spaces only inside a quoted string, no
    stray quotes, no leading '#', no trailing backslash, no tab/newline, not reserved)"""
    if text == "" or text in RESERVED:
        return False
    if "\n" in text or "\r" in text or "\t" in text or text.endswith("\\"):
        return False
    if text[0] in "\"'":
        return len(text) >= 2 and text[-1] == text[0] and text[0] not in text[1:-1]
    return not any(c in text for c in " \"'") and not text.startswith("#")


def random_literals(rng, n):
    """seeded extras: random numbers in several spellings, random strings,
    random lat/lon and points, and single-character mutations of valid literals"""
    out = []
    alpha = "abcxyzNESWnedfsbj_.,+-0123456789eE"
    safe = "".join(chr(c) for c in range(32, 127) if chr(c) not in "\"'\\")
    base = [t for t, fam in grammar() if not fam.endswith("near") and fam not in ("underscore",)
            and max(len(r) for r in re.split(r"\W", t)) <= 14]
    for i in range(n):
        k = i % 10
        if k == 0:
            v = rng.choice([rng.randrange(-10 ** 6, 10 ** 6), rng.randrange(-2 ** 70, 2 ** 70), rng.randrange(0, 1000)])
            out.append((rng.choice(["%d", "%+d", "0%d" if v >= 0 else "%d"]) % v, "rnd-dec"))
        elif k == 1:
            v = rng.randrange(0, 2 ** rng.choice([8, 16, 32, 64]))
            out.append((rng.choice(["", "-", "+"]) + rng.choice(["0x%x", "0X%X", "0x%X", "0x%08x"]) % v, "rnd-hex"))
        elif k == 2:
            v = rng.choice([rng.uniform(-1e3, 1e3), rng.uniform(-1, 1) * 10 ** rng.randint(-30, 30), rng.random()])
            out.append((rng.choice([repr(v), "%.6e" % v, "%.3f" % v, "%E" % v, "%+.4g" % v if "e" not in "%.4g" % v else repr(v)]), "rnd-float"))
        elif k == 3:
            out.append(("%d%s%d.%0*d" % (rng.randrange(0, 180), rng.choice("NESWnesw"), rng.randrange(0, 60),
                                          rng.randint(1, 4), rng.randrange(0, 10)), "rnd-latlon"))
        elif k == 4:
            fam = rng.choice(["xy", "xyz", "ne", "ned", "fs", "fsb"])
            t = ""
            for l in fam:
                x = rng.randrange(-8000, 8000) / 8.0
                t += rng.choice([repr(x), "%d" % int(x), "%+.2f" % x, "%d." % int(x)]) + rng.choice([l, l.upper()])
            out.append((t, "rnd-point"))
        elif k == 5:
            s = "".join(rng.choice(safe) for _ in range(rng.randint(0, 12)))
            q = rng.choice("\"'")
            out.append((q + s + q, "rnd-quoted"))
        elif k == 6:
            parts = ["".join(rng.choice("abXY_z9") for _ in range(rng.randint(1, 4))) for _ in range(rng.randint(1, 4))]
            parts = [p if p[0] not in DIGITS else "p" + p for p in parts]
            out.append((rng.choice(["", "."]) + ".".join(parts) + rng.choice(["", "", "."]), "rnd-path"))
        else:
            t = rng.choice(base)
            if t[0] in "\"'":
                t = rng.choice(base)
            j = rng.randrange(0, len(t) + 1)
            op = rng.randrange(3)
            if op == 0:
                t = t[:j] + rng.choice(alpha) + t[j:]
            elif op == 1 and len(t) > 1:
                t = t[:j - 1] + t[j:] if j else t[1:]
            else:
                j = min(j, len(t) - 1)
                t = t[:j] + rng.choice(alpha) + t[j + 1:]
            out.append((t, "rnd-mutant"))
    return [(t, fam) for t, fam in out if t and t not in RESERVED]


def roundtrip_values(rng, n):
    """(value, literal) pairs for oracle 2: finite ints, floats (repr), booleans,
    None, finite complex, points in the documented forms, quote-free strings in
    both kinds of quotes"""
    vals = [None, True, False, 0, 1, -1, 7, 10, 255, -256, 2 ** 31, -2 ** 63, 10 ** 20, 0.0, -0.0, 1.0, -1.5, 0.1, 1e3, 1e16,
            1e-5, 1e22, 1.7976931348623157e308, 5e-324, 2.2250738585072014e-308, 123456.789, 1 / 3.0, 1e100, -1e-100,
            1j, -1j, (1 + 2j), (1.5 - 2.5j), (1e3 + 1e-3j), (-2.5 + 0.5j),
            "", "a", "hello world", "123", "1.5", "true", "none", ".a.b", "12N30.5", "1x2y", " x ", "#c", "a#b", "into"]
    safe = "".join(chr(c) for c in range(32, 127) if chr(c) not in "\"'\\")
    for i in range(n):
        k = i % 6
        if k == 0:
            vals.append(rng.choice([rng.randrange(-10 ** 9, 10 ** 9), rng.randrange(-2 ** 100, 2 ** 100), rng.randrange(-50, 50)]))
        elif k == 1:
            v = rng.choice([rng.uniform(-1e6, 1e6), rng.uniform(-1, 1) * 10.0 ** rng.randint(-300, 300),
                            float(rng.randrange(-10 ** 6, 10 ** 6)), rng.random(), rng.randrange(-4000, 4000) / 16.0])
            if math.isfinite(v):
                vals.append(v)
        elif k == 2:
            vals.append("".join(rng.choice(safe) for _ in range(rng.randint(0, 16))))
        elif k == 3:
            fam = rng.choice(["xy", "xyz", "ne", "ned", "fs", "fsb"])
            vals.append(Point(fam, [rng.choice([rng.randrange(-80000, 80000) / 16.0, float(rng.randrange(-1000, 1000)),
                                                rng.randrange(0, 10 ** 9) / 1024.0]) for _ in fam]))
        elif k == 4:
            vals.append(complex(rng.randrange(1, 4000) / 16.0 * rng.choice([1, -1]),
                                rng.randrange(1, 4000) / 32.0 * rng.choice([1, -1])))
        else:
            vals.append(rng.choice([None, True, False]))
    out = []
    for i, v in enumerate(vals):
        if isinstance(v, Point) and any(abs(x) >= 1e16 or (x != 0 and abs(x) < 1e-4) for x in v.values):
            continue
        if isinstance(v, str):
            out.append((v, render_value(v, '"')))
            out.append((v, render_value(v, "'")))
        else:
            out.append((v, render_value(v, style=i)))
    return out


# ------------------------------------------------------------------ harness behaviour
LOG = []        # events appended by VfLit instances: dicts {k: cum|per|with, tag, data}


def reset():
    del LOG[:]


try:
    from ioflo.base import doing as _doing
    from ioflo.aid.odicting import odict as _odict
except Exception:       # classifier / grammar usable without ioflo
    _doing = None

if _doing is not None and "VfLit" not in _doing.Doer.Registry:

    class VfLit(_doing.Doer):
        """`do vf lit [with data] [per data] [cum data]`: records the python
        objects the builder hands over for each clause.
          cum -> constructor keyword arguments   (Act.inits)
          per -> _initio(ioinits)                (Act.ioinits)
          with -> action(**parms)                (Act.parms), each run
        """

        # registered defaults (as deeds made with doify(parms=...) have): every act gets its own copy, into which the
        # literals of its own `with` / `per` / `cum` clauses are merged
        Parms = _odict([("vfdefault", 0)])
        Inits = _odict([("vfdefault", 0)])
        Ioinits = _odict([("vfdefault", "")])

        def __init__(self, **kwa):
            extra = dict((k, v) for k, v in kwa.items() if k not in ("name", "store", "act"))
            super(VfLit, self).__init__(**dict((k, v) for k, v in kwa.items() if k in ("name", "store", "act")))
            self._vf_cum = extra
            LOG.append({"k": "cum", "data": extra, "actor": self})

        def _initio(self, ioinits):
            data = dict((k, v) for k, v in dict(ioinits).items() if k != "inode")
            self._vf_per = data
            LOG.append({"k": "per", "data": data, "actor": self})
            return _odict()          # no io shares wanted: the raw values are the observation

        def action(self, **kwa):
            LOG.append({"k": "with", "data": dict(kwa), "actor": self,
                        "context": getattr(self._act, "context", None)})
            return None
