"""Shared worker loop for engine-A checks: generate -> run real -> monitors (+ optional reference comparison)."""
import random

from vf.flo import gen, prog as P


def flo_worker(ctx, job, feats, monitor_fns, refcompare=True, nontrivial=None, sem_flags=(), mutate=None):
    from vf.flo import runner, monitors, refint, compare
    for seed, fi in job["items"]:
        rng = random.Random(seed)
        if feats[fi % len(feats)].get("family") == "nested":
            prog = gen.nested_condaux_program(rng)
        elif feats[fi % len(feats)].get("family") == "shared":
            prog = gen.shared_condaux_program(rng)
        else:
            prog = gen.gen_program(rng, gen.pickfeat(feats, fi))
        if mutate:
            mutate(rng, prog)
        text = P.render(prog)
        cap = prog["ticks"] + 12
        res = runner.run_text(text, maxticks=cap, post=True, watch=gen.WATCH)
        if not res.built:
            ctx.inconclusive_case("generated program did not build: %s" % (res.build_msgs[-1:],))
            continue
        if res.exc is not None:
            ctx.fail("run-raised/%s" % type(res.exc).__name__, "run raised %r" % (res.exc,), {"program": text})
            continue
        info = monitors.Info(prog)
        nf = len(ctx.fails)
        before = dict(ctx.hits)
        for fn in monitor_fns:
            fn(ctx, info, res)
        if refcompare:
            try:
                ref = refint.Ref(prog, maxticks=cap).run()
                d = compare.first_divergence(res, ref, gen.WATCH)
                for fl in ref.flags:
                    if fl in sem_flags:
                        ctx.hit("sem_" + fl)
                ctx.check(d is None, "refint-divergence/%s" % (d or {}).get("kind"),
                          "real run and reference interpreter differ: %s" % (
                              {k: v for k, v in (d or {}).items() if not k.startswith("context")},),
                          lambda: {"divergence": d})
            except refint.Unsupported as e:
                ctx.hit("excluded_corner")
        for f in ctx.fails[nf:]:
            if isinstance(f.get("witness"), dict):
                f["witness"]["program"] = text
        delta = {k: ctx.hits.get(k, 0) - before.get(k, 0) for k in ctx.hits}
        nt = nontrivial(delta) if nontrivial else True
        ctx.case(text, nontrivial=nt, sample={"program": text, "observed": {k: v for k, v in delta.items() if v}}
                 if nt and len(text) < 2600 else None)


def flo_run(ctx, feats, nquick, nthorough, floors):
    n = ctx.pick(nquick, nthorough)
    items = [(ctx.rng.randrange(1 << 30), i % gen.nfeats(feats, ctx)) for i in range(n)]
    ctx.shard([{"items": items[i::16]} for i in range(16)], timeout=ctx.pick(300, 1500))
    for k, v in floors.items():
        ctx.floor(k, v)
