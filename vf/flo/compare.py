"""Compare a real run (vf.flo.runner.Result) with a reference run (vf.flo.refint.Ref)."""


def real_events(res):
    return [(e["tick"], e["framer"], e["frame"], e["ctx"], e["tag"]) for e in res.trace]


def ref_events(ref):
    return [(e["tick"], e["framer"], e["frame"], e["ctx"], e["tag"]) for e in ref.trace]


def real_ticks(res):
    t = res.ticks[1:]
    if not res.capped and res.presweep is not None:
        t = t + [res.presweep]
    return t


def first_divergence(res, ref, watch):
    """returns None or a dict describing the first divergence"""
    re_, rf = real_events(res), ref_events(ref)
    n = min(len(re_), len(rf))
    for i in range(n):
        if re_[i] != rf[i]:
            return {"kind": "event", "index": i, "expected": rf[i], "observed": re_[i],
                    "context_expected": rf[max(0, i - 5):i + 3], "context_observed": re_[max(0, i - 5):i + 3]}
    if len(re_) != len(rf):
        i = n
        return {"kind": "event-count", "index": i, "expected": rf[i] if i < len(rf) else None,
                "observed": re_[i] if i < len(re_) else None,
                "context_expected": rf[max(0, i - 5):i + 3], "context_observed": re_[max(0, i - 5):i + 3]}
    rt, ft = real_ticks(res), ref.ticks
    if len(rt) != len(ft):
        return {"kind": "tick-count", "expected": len(ft), "observed": len(rt)}
    for a, b in zip(rt, ft):
        for name, fb in b["framers"].items():
            fa = a["framers"].get(name)
            if fa is None:
                return {"kind": "framer-missing", "framer": name, "tick": b["tick"]}
            for key in ("status", "actives", "active", "done"):
                if fa[key] != fb[key]:
                    return {"kind": "snapshot-" + key, "tick": b["tick"], "framer": name,
                            "expected": fb[key], "observed": fa[key]}
        for path in watch:
            va = (a["shares"] or {}).get(path)
            vb = b["shares"].get(path)
            if va != vb:
                return {"kind": "share-value", "tick": b["tick"], "share": path, "expected": vb, "observed": va}
    return None
