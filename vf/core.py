"""Shared runner / verdict / evidence / known-findings machinery (DESIGN 1).

Every check module ``vf.checks.cNN`` exposes

    LEVEL  = "exploration" | "fault_enumeration"
    RULE   = "<how cases are generated and what makes one non-trivial>"
    def run(ctx): ...              # parent side
    def worker(ctx, job): ...      # optional, run in a child by ctx.shard()

and talks to a ``Ctx``:

    ctx.case(key, nontrivial=True, sample=None)   one generated case / execution
    ctx.check(cond, key, what, witness)           one oracle evaluation
    ctx.fail(key, what, witness)                  an oracle evaluation that failed
    ctx.hit(name, n)                              "mechanism reached" counter
    ctx.floor(name, minimum)                      else the run is INCONCLUSIVE
    ctx.event(n)                                  monitor events observed

Verdicts (1.3): violated -> exit 1 + VIOLATION line, held -> exit 0,
inconclusive -> exit 2 (never a VIOLATION line).
"""
import collections.abc  # noqa: F401  (ioflo needs it pre-imported on 3.12, see C01)
import hashlib
import importlib
import json
import os
import random
import shutil
import subprocess
import sys
import tempfile
import time
import traceback

VERIF = os.path.dirname(os.path.dirname(os.path.abspath(__file__)))
REPO = os.environ.get("VERIF_REPO", "/repo")
PY = os.environ.get("VERIF_PY", "/venv/bin/python")
DEPS = os.path.join(VERIF, ".deps")
SCRATCH = os.environ.get("VERIF_SCRATCH", os.path.join(VERIF, ".scratch"))
NCPU = min(16, os.cpu_count() or 4)
KNOWN_FILE = os.path.join(VERIF, "known_findings.json")
# runs against a scratch tree (mutant validation) must not overwrite the committed evidence / replay files
EVIDENCE_DIR = os.environ.get("VERIF_EVIDENCE_DIR", os.path.join(VERIF, "evidence"))
REPLAY_DIR = os.environ.get("VERIF_REPLAY_DIR", os.path.join(VERIF, "replay"))


def child_env(extra=None):
    env = dict(os.environ)
    env["PYTHONPATH"] = os.pathsep.join([REPO, DEPS, VERIF])
    env["PYTHONHASHSEED"] = "0"
    env["PYTHONDONTWRITEBYTECODE"] = "1"
    env["IOFLO_VERIF"] = "1"
    env.setdefault("PYTHONWARNINGS", "ignore::SyntaxWarning")
    if extra:
        env.update(extra)
    return env


def ensure_deps():
    """icontract / deal beside the repository's interpreter (1.1)."""
    if os.path.isdir(os.path.join(DEPS, "icontract")):
        return
    subprocess.run([PY, "-m", "pip", "install", "--no-index", "--quiet",
                    "--find-links", "/opt/veriftools/wheels", "--target", DEPS,
                    "icontract", "deal"], check=False,
                   stdout=subprocess.DEVNULL, stderr=subprocess.DEVNULL)


def scratch_dir(prefix="vf"):
    os.makedirs(SCRATCH, exist_ok=True)
    return tempfile.mkdtemp(prefix=prefix + "-", dir=SCRATCH)


def canon(obj):
    return json.dumps(obj, sort_keys=True, default=repr)


def digest(obj):
    return hashlib.sha1(canon(obj).encode()).hexdigest()[:16]


def assert_repo_tree():
    import ioflo
    path = os.path.realpath(ioflo.__file__)
    if not path.startswith(os.path.realpath(REPO) + os.sep):
        raise Inconclusive("ioflo imported from %s, not from %s" % (path, REPO))


class Inconclusive(Exception):
    pass


class Watchdog(BaseException):
    """Raised by alarm handlers; a BaseException so ioflo's broad handlers
    (``except IOError`` catches TimeoutError) cannot swallow it."""


def load_known():
    """known_findings.json plus known_findings.d/*.json (committed, hand edited,
    never written at run time)."""
    import glob
    out = []
    for fn in [KNOWN_FILE] + sorted(glob.glob(os.path.join(VERIF, "known_findings.d", "*.json"))):
        try:
            with open(fn) as f:
                out.extend(json.load(f))
        except FileNotFoundError:
            pass
    return out


class Ctx(object):
    MAX_SAMPLES = 6
    MAX_WITNESSES = 12

    def __init__(self, pid, tier="quick", seed=0, job=None):
        self.pid = pid
        self.tier = tier
        self.seed = int(seed)
        self.job = job
        self.rng = random.Random(self.seed * 1000003 + (job["index"] if job else 0))
        self.evaluations = 0
        self.oracle_evaluations = 0
        self.events = 0
        self.distinct = set()        # digests of distinct non-trivial cases
        self.samples = []
        self.hits = {}
        self.floors = {}
        self.fails = []              # [{key, what, witness}]
        self.fail_counts = {}        # key -> count
        self.inconclusive = []       # reasons
        self.extra = {}
        self.exhaustive = None
        self.assumptions = []
        self.t0 = time.time()

    # ---- tier helpers
    @property
    def quick(self):
        return self.tier == "quick"

    def pick(self, quick, thorough):
        return quick if self.quick else thorough

    def subrng(self, *parts):
        return random.Random(canon([self.seed] + list(parts)))

    # ---- recording
    def case(self, key=None, nontrivial=True, sample=None):
        self.evaluations += 1
        if nontrivial and key is not None:
            self.distinct.add(key if isinstance(key, str) and len(key) <= 16 else digest(key))
        if sample is not None and len(self.samples) < self.MAX_SAMPLES:
            self.samples.append(sample)

    def sample(self, obj):
        if len(self.samples) < self.MAX_SAMPLES:
            self.samples.append(obj)

    def event(self, n=1):
        self.events += n

    def hit(self, name, n=1):
        self.hits[name] = self.hits.get(name, 0) + n

    def floor(self, name, minimum):
        self.floors[name] = minimum

    def check(self, cond, key, what=None, witness=None):
        self.oracle_evaluations += 1
        if not cond:
            self._fail(key, what, witness)
        return bool(cond)

    def fail(self, key, what=None, witness=None):
        self.oracle_evaluations += 1
        self._fail(key, what, witness)

    def _fail(self, key, what, witness):
        self.fail_counts[key] = self.fail_counts.get(key, 0) + 1
        if self.fail_counts[key] <= 3 and len(self.fails) < 60:
            if callable(witness):
                witness = witness()
            self.fails.append({"key": key, "what": what or key, "witness": witness})

    def inconclusive_case(self, reason):
        self.inconclusive.append(reason)

    # ---- sharding over child processes
    def to_json(self):
        return {
            "evaluations": self.evaluations,
            "oracle_evaluations": self.oracle_evaluations,
            "events": self.events,
            "distinct": sorted(self.distinct),
            "samples": self.samples,
            "hits": self.hits,
            "fails": self.fails,
            "fail_counts": self.fail_counts,
            "inconclusive": self.inconclusive[:20],
            "extra": self.extra,
        }

    def merge(self, d):
        self.evaluations += d["evaluations"]
        self.oracle_evaluations += d["oracle_evaluations"]
        self.events += d["events"]
        self.distinct.update(d["distinct"])
        for s in d["samples"]:
            self.sample(s)
        for k, v in d["hits"].items():
            self.hit(k, v)
        for k, v in d["fail_counts"].items():
            self.fail_counts[k] = self.fail_counts.get(k, 0) + v
        have = {}
        for f in self.fails:
            have[f["key"]] = have.get(f["key"], 0) + 1
        for f in d["fails"]:
            if have.get(f["key"], 0) < 3 and len(self.fails) < 60:
                self.fails.append(f)
                have[f["key"]] = have.get(f["key"], 0) + 1
        self.inconclusive.extend(d["inconclusive"])
        for k, v in d.get("extra", {}).items():
            if isinstance(v, (int, float)) and isinstance(self.extra.get(k, 0), (int, float)):
                self.extra[k] = self.extra.get(k, 0) + v
            elif isinstance(v, list):
                self.extra.setdefault(k, [])
                self.extra[k] = (self.extra[k] + v)[:50]
            elif isinstance(v, dict):
                dd = self.extra.setdefault(k, {})
                for kk, vv in v.items():
                    if isinstance(vv, (int, float)):
                        dd[kk] = dd.get(kk, 0) + vv
                    else:
                        dd.setdefault(kk, vv)
            else:
                self.extra.setdefault(k, v)

    def shard(self, jobs, timeout=600, procs=None, xdev=False, env=None):
        """Run ``module.worker(ctx, job)`` for every job in child processes
        (subprocess per job, never a Pool) and merge their counters."""
        procs = procs or NCPU
        tmp = scratch_dir("shard")
        pending = list(enumerate(jobs))
        running = []
        try:
            while pending or running:
                while pending and len(running) < procs:
                    i, job = pending.pop(0)
                    job = dict(job)
                    job["index"] = i
                    jf = os.path.join(tmp, "job%d.json" % i)
                    of = os.path.join(tmp, "out%d.json" % i)
                    ef = os.path.join(tmp, "err%d.txt" % i)
                    with open(jf, "w") as f:
                        json.dump(job, f)
                    cmd = [PY, "-B"] + (["-X", "dev"] if xdev else []) + \
                          ["-m", "vf.core", "--worker", self.pid, self.tier,
                           str(self.seed), jf, of]
                    p = subprocess.Popen(cmd, cwd=VERIF, env=child_env(env),
                                         stdout=subprocess.DEVNULL,
                                         stderr=open(ef, "w"))
                    running.append((p, i, of, ef, time.time()))
                still = []
                for p, i, of, ef, t0 in running:
                    rc = p.poll()
                    if rc is None:
                        if time.time() - t0 > timeout:
                            p.kill()
                            p.wait()
                            self.inconclusive_case("worker %d: wall-clock watchdog (%ds)" % (i, timeout))
                        else:
                            still.append((p, i, of, ef, t0))
                        continue
                    if os.path.exists(of):
                        with open(of) as f:
                            self.merge(json.load(f))
                    else:
                        try:
                            err = open(ef).read()[-1500:]
                        except OSError:
                            err = ""
                        self.inconclusive_case("worker %d died rc=%s: %s" % (i, rc, err))
                running = still
                if running:
                    time.sleep(0.02)
        finally:
            shutil.rmtree(tmp, ignore_errors=True)

    # ---- verdict
    def finish(self, level, rule):
        known = [k for k in load_known() if k.get("property") == self.pid]
        open_keys = {k["key"]: k for k in known if k.get("status") == "open"}
        seen_known = {}
        new = []
        for f in self.fails:
            if f["key"] in open_keys:
                seen_known.setdefault(f["key"], f)
            else:
                new.append(f)
        for key in self.fail_counts:
            if key in open_keys and key not in seen_known:
                seen_known[key] = {"key": key, "what": open_keys[key]["what"]}
        for key in sorted(seen_known):
            print("KNOWN-FINDING: property=%s %s [%s] (%d occurrences)" % (
                self.pid, open_keys[key]["what"], key, self.fail_counts.get(key, 1)))
        new_keys = sorted(k for k in self.fail_counts if k not in open_keys)

        floor_misses = []
        for name, minimum in sorted(self.floors.items()):
            got = {"evaluations": self.evaluations,
                   "oracle_evaluations": self.oracle_evaluations,
                   "distinct_nontrivial": len(self.distinct),
                   "events": self.events}.get(name, self.hits.get(name, 0))
            if got < minimum:
                floor_misses.append("%s=%d<%d" % (name, got, minimum))
        if self.oracle_evaluations == 0:
            floor_misses.append("oracle_evaluations=0")
        if len(self.distinct) < 2:
            floor_misses.append("distinct_nontrivial<2")

        wall = time.time() - self.t0
        if new_keys:
            verdict = "violated"
        elif floor_misses or self.inconclusive:
            verdict = "inconclusive"
        else:
            verdict = "held"

        cov = {
            "evaluations": self.evaluations,
            "distinct_nontrivial": len(self.distinct),
            "rule": rule,
            "samples": self.samples[:self.MAX_SAMPLES] or ["<none>"],
            "oracle_evaluations": self.oracle_evaluations,
            "events_observed": self.events,
            "mechanism_hits": dict(sorted(self.hits.items())),
            "floors": self.floors,
            "known_findings_seen": {k: self.fail_counts.get(k, 0) for k in sorted(seen_known)},
            "inconclusive_cases": self.inconclusive[:10],
            "verdict": verdict,
        }
        if self.exhaustive is not None:
            cov["exhaustive"] = bool(self.exhaustive)
        cov.update(self.extra)
        ev = {
            "property_id": self.pid, "tier": self.tier, "seed": self.seed,
            "level": level, "coverage": cov, "assumptions": self.assumptions,
            "wall_s": round(wall, 2), "violations": len(new_keys),
        }
        os.makedirs(EVIDENCE_DIR, exist_ok=True)
        tmpf = os.path.join(EVIDENCE_DIR, ".%s.json.tmp" % self.pid)
        with open(tmpf, "w") as f:
            json.dump(ev, f, indent=1, sort_keys=True, default=repr)
        os.replace(tmpf, os.path.join(EVIDENCE_DIR, "%s.json" % self.pid))

        print("%s %s tier=%s seed=%d: cases=%d distinct=%d oracle_evals=%d events=%d wall=%.1fs" % (
            self.pid, verdict.upper(), self.tier, self.seed, self.evaluations,
            len(self.distinct), self.oracle_evaluations, self.events, wall))
        if self.hits:
            print("  hits: " + ", ".join("%s=%d" % kv for kv in sorted(self.hits.items())))
        if verdict == "violated":
            rdir = os.path.join(REPLAY_DIR, self.pid)
            os.makedirs(rdir, exist_ok=True)
            for key in new_keys:
                ws = [f for f in new if f["key"] == key]
                rp = os.path.join(rdir, digest(key) + ".json")
                with open(rp, "w") as f:
                    json.dump({"property": self.pid, "key": key, "seed": self.seed,
                               "tier": self.tier, "count": self.fail_counts[key],
                               "witnesses": ws}, f, indent=1, default=repr)
                what = ws[0]["what"] if ws else key
                print("VIOLATION property=%s replay=%s key=%s count=%d :: %s" % (
                    self.pid, os.path.relpath(rp, VERIF), key, self.fail_counts[key],
                    str(what)[:300]))
            return 1
        if verdict == "inconclusive":
            print("INCONCLUSIVE property=%s reason=%s" % (
                self.pid, "; ".join(floor_misses + [str(r)[-700:] for r in self.inconclusive[:3]])))
            return 2
        return 0


def rule_add(rule, more):
    """RULE with the families added later put in front of the definition of distinct / non-trivial"""
    i = rule.find("distinct = ")
    if i < 0:
        return rule.rstrip() + "; " + more
    head = rule[:i].rstrip().rstrip(";").rstrip()
    return head + "; " + more + "; " + rule[i:]


def exc_key(exc, tb=None):
    """Mechanism signature of an exception: (type, innermost ioflo function,
    normalised source line) -- never a seed or a random value (1.4)."""
    tb = tb or exc.__traceback__
    frames = traceback.extract_tb(tb)
    inner = None
    for fr in frames:
        if (os.sep + "ioflo" + os.sep) in fr.filename:
            inner = fr
    if inner is None:
        return "%s@<outside ioflo>" % type(exc).__name__
    line = " ".join((inner.line or "").split())
    return "%s@%s:%s:%s" % (type(exc).__name__,
                            os.path.basename(inner.filename), inner.name, line[:80])


def load_check(pid):
    return importlib.import_module("vf.checks." + pid.lower())


def main(argv):
    if argv and argv[0] == "--worker":
        pid, tier, seed, jf, of = argv[1:6]
        import faulthandler
        faulthandler.enable()
        with open(jf) as f:
            job = json.load(f)
        ctx = Ctx(pid, tier, int(seed), job=job)
        mod = load_check(pid)
        try:
            assert_repo_tree()
            mod.worker(ctx, job)
        except Inconclusive as e:
            ctx.inconclusive_case(str(e))
        except Exception:
            ctx.inconclusive_case("harness error in worker: ..." + traceback.format_exc()[-900:])
        with open(of + ".tmp", "w") as f:
            json.dump(ctx.to_json(), f, default=repr)
        os.replace(of + ".tmp", of)
        return 0
    import argparse
    ap = argparse.ArgumentParser()
    ap.add_argument("pid")
    ap.add_argument("--tier", default=os.environ.get("VERIF_TIER", "quick"))
    ap.add_argument("--seed", type=int, default=int(os.environ.get("VERIF_SEED", "0")))
    a = ap.parse_args(argv)
    pid = a.pid.upper()
    ensure_deps()
    if DEPS not in sys.path:
        sys.path.insert(1, DEPS)
    global SCRATCH
    os.makedirs(SCRATCH, exist_ok=True)
    SCRATCH = tempfile.mkdtemp(prefix="run-%s-" % pid, dir=SCRATCH)
    os.environ["VERIF_SCRATCH"] = SCRATCH
    mod = load_check(pid)
    ctx = Ctx(pid, a.tier, a.seed)
    try:
        if getattr(mod, "NEEDS_IOFLO", True):
            assert_repo_tree()
        mod.run(ctx)
    except Inconclusive as e:
        ctx.inconclusive_case(str(e))
    except Exception:
        ctx.inconclusive_case("harness error: " + traceback.format_exc()[-1500:])
    rc = ctx.finish(mod.LEVEL, mod.RULE)
    shutil.rmtree(SCRATCH, ignore_errors=True) if not os.environ.get("VERIF_KEEP") else None
    return rc


if __name__ == "__main__":
    sys.exit(main(sys.argv[1:]))
