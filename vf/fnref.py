"""Independent references shared by the function-engine checks (DESIGN 2.C).

Nothing in here imports ioflo.  Everything is exact: Python integers and
``fractions.Fraction``; floats are only ever *converted* to Fractions (which
is exact), never computed with.
"""
import math
from fractions import Fraction

# --------------------------------------------------------------------------
# small utilities


def chunks(seq, n):
    """Split ``seq`` into at most ``n`` contiguous slices of near equal size."""
    seq = list(seq)
    n = max(1, min(n, len(seq) or 1))
    k, r = divmod(len(seq), n)
    out, i = [], 0
    for j in range(n):
        step = k + (1 if j < r else 0)
        out.append(seq[i:i + step])
        i += step
    return [c for c in out if c]


def compositions(total):
    """All ordered tuples of positive integers summing to ``total``."""
    if total == 0:
        yield ()
        return
    for first in range(1, total + 1):
        for rest in compositions(total - first):
            yield (first,) + rest


def ulp(x):
    x = abs(float(x))
    if x == 0.0:
        return 5e-324
    return math.ulp(x)


def frac(x):
    """Exact rational value of an int / float / Fraction."""
    if isinstance(x, Fraction):
        return x
    return Fraction(x)


def is_finite_number(x):
    if isinstance(x, (int, Fraction)) and not isinstance(x, bool):
        return True
    return isinstance(x, float) and math.isfinite(x)


# --------------------------------------------------------------------------
# bit fields (C40): plain integer arithmetic


def nbytes_for(bits):
    return (bits + 7) // 8


def ref_pack_int(widths, values, size=None):
    """Integer whose top bits are the fields, big endian, right zero padded to
    ``size`` bytes.  One-bit fields pack truthiness, wider ones the low bits."""
    total = sum(widths)
    if size is None:
        size = nbytes_for(total)
    n = 0
    for w, v in zip(widths, values):
        if w == 1:
            f = 1 if v else 0
        else:
            f = int(v) % (1 << w)          # low w bits, also for negative v
        n = n * (1 << w) + f
    n *= 1 << (8 * size - total)
    return n, size


def ref_pack(widths, values, size=None, reverse=False):
    n, size = ref_pack_int(widths, values, size)
    b = n.to_bytes(size, "big") if size else b""
    return b[::-1] if reverse else b


def ref_unpack(widths, data, boolean=False, size=None, reverse=False):
    """Fields of the first ``size`` bytes (after an optional whole-buffer
    mirror), most significant first, plus one padding field if bits remain."""
    data = bytes(data)
    if reverse:
        data = data[::-1]
    total = sum(widths)
    if size is None:
        size = nbytes_for(total)
    data = data[:size]
    bits = "".join(format(byte, "08b") for byte in data)
    bits = bits.rjust(8 * size, "0")       # short buffers count as left zero padded
    out, pos = [], 0
    for w in list(widths) + ([8 * size - total] if 8 * size - total else []):
        piece = bits[pos:pos + w]
        pos += w
        val = int(piece, 2) if piece else 0
        if w == 1 and boolean:
            val = bool(val)
        out.append(val)
    return tuple(out)


def ref_bytify(n, size=1, reverse=False, strict=False):
    if n < 0 or strict:
        n %= 1 << (8 * size)
    length = max(size, nbytes_for(n.bit_length()))
    b = n.to_bytes(length, "big") if length else b""
    return b[::-1] if reverse else b


def ref_sign_extend(x, n):
    """Two's complement value of the n-bit pattern x (0 <= x < 2**n)."""
    return x - (1 << n) if x >= (1 << (n - 1)) else x


# --------------------------------------------------------------------------
# CRC (C41): table driven, MSB first, not reflected


def _crc_table(poly, width):
    top = 1 << (width - 1)
    mask = (1 << width) - 1
    table = []
    for byte in range(256):
        reg = byte << (width - 8)
        for _ in range(8):
            reg = ((reg << 1) ^ poly) & mask if reg & top else (reg << 1) & mask
        table.append(reg)
    return table


_T16 = _crc_table(0x1021, 16)
_T64 = _crc_table(0x42F0E1EBA9EA3693, 64)


def crc16_genibus(data):
    reg = 0xFFFF
    for byte in bytes(data):
        reg = ((reg << 8) & 0xFFFF) ^ _T16[((reg >> 8) ^ byte) & 0xFF]
    return reg ^ 0xFFFF


def crc64_we(data):
    reg = 0xFFFFFFFFFFFFFFFF
    for byte in bytes(data):
        reg = ((reg << 8) & 0xFFFFFFFFFFFFFFFF) ^ _T64[((reg >> 56) ^ byte) & 0xFF]
    return reg ^ 0xFFFFFFFFFFFFFFFF


CRC_CHECK_INPUT = b"123456789"
CRC16_GENIBUS_CHECK = 0xD64E              # catalogue "check" values
CRC64_WE_CHECK = 0x62EC59E3F1A4F00A


# --------------------------------------------------------------------------
# angle wrapping (C43, C46): exact


def whole_turns(result, angle, turn):
    """(k, residual): nearest integer k with result = angle + k*turn + residual,
    all exact rationals."""
    d = frac(result) - frac(angle)
    t = frac(turn)
    k = round(d / t)
    return k, d - k * t


def in_wrap1_range(result, wrap):
    """Half-open range between zero and wrap: [0, wrap) or (wrap, 0]."""
    r, w = frac(result), frac(wrap)
    return (0 <= r < w) if w > 0 else (w < r <= 0)


def in_wrap2_range(result, wrap):
    r, w = frac(result), abs(frac(wrap))
    return -w <= r <= w


def ref_wrap1(angle, wrap):
    a, w = frac(angle), frac(wrap)
    if w == 0:
        return a
    k = math.floor(a / w)
    return a - k * w


# --------------------------------------------------------------------------
# planar integer geometry (C44): exact


def cross(o, a, b):
    return (a[0] - o[0]) * (b[1] - o[1]) - (a[1] - o[1]) * (b[0] - o[0])


def on_segment(p, a, b):
    """p on the closed segment ab (integers / rationals, exact)."""
    if cross(a, b, p) != 0:
        return False
    return (min(a[0], b[0]) <= p[0] <= max(a[0], b[0]) and
            min(a[1], b[1]) <= p[1] <= max(a[1], b[1]))


def _sgn(x):
    return (x > 0) - (x < 0)


def segments_touch(a, b, c, d):
    """closed segments ab and cd share at least one point."""
    d1, d2 = _sgn(cross(a, b, c)), _sgn(cross(a, b, d))
    d3, d4 = _sgn(cross(c, d, a)), _sgn(cross(c, d, b))
    if d1 * d2 < 0 and d3 * d4 < 0:
        return True
    return (on_segment(c, a, b) or on_segment(d, a, b) or
            on_segment(a, c, d) or on_segment(b, c, d))


def is_simple_polygon(vs):
    """Boundary is a simple closed curve: >= 3 distinct vertices, edges of
    non-zero length, non-adjacent edges disjoint, adjacent edges meet only in
    their shared vertex (straight angles allowed, spikes not)."""
    n = len(vs)
    if n < 3 or len(set(map(tuple, vs))) != n:
        return False
    for i in range(n):
        a, b = vs[i], vs[(i + 1) % n]
        c = vs[(i + 2) % n]
        # adjacent edges ab, bc: must not fold back over each other
        if cross(a, b, c) == 0:
            if (b[0] - a[0]) * (c[0] - b[0]) + (b[1] - a[1]) * (c[1] - b[1]) < 0:
                return False
        for j in range(i + 2, n):
            if i == 0 and j == n - 1:
                continue                     # adjacent through the wrap around
            if segments_touch(a, b, vs[j], vs[(j + 1) % n]):
                return False
    return True


def on_boundary(p, vs):
    n = len(vs)
    return any(on_segment(p, vs[i], vs[(i + 1) % n]) for i in range(n))


def crossing_parity_inside(p, vs):
    """Even-odd rule with an exact rational intersection abscissa; only
    meaningful for p not on the boundary."""
    px, py = p
    inside = False
    n = len(vs)
    for i in range(n):
        x1, y1 = vs[i]
        x2, y2 = vs[(i + 1) % n]
        if (y1 > py) != (y2 > py):
            xint = Fraction(x1) + Fraction((py - y1) * (x2 - x1), (y2 - y1))
            if xint > px:
                inside = not inside
    return inside


def classify_point(p, vs):
    """'on' | 'in' | 'out' for a simple polygon."""
    if on_boundary(p, vs):
        return "on"
    return "in" if crossing_parity_inside(p, vs) else "out"


def twice_area(vs):
    n = len(vs)
    return sum(vs[i][0] * vs[(i + 1) % n][1] - vs[(i + 1) % n][0] * vs[i][1] for i in range(n))


def star_polygon(rng, n, radius, centre=(0, 0)):
    """Random simple polygon: n integer points in pairwise distinct directions
    from the centre, ordered by exact angle.  Simple by construction when the
    centre is strictly inside the angular hull; callers re-verify with
    is_simple_polygon."""
    dirs = {}
    tries = 0
    while len(dirs) < n and tries < 50 * n:
        tries += 1
        dx, dy = rng.randint(-radius, radius), rng.randint(-radius, radius)
        if dx == 0 and dy == 0:
            continue
        g = math.gcd(dx, dy)
        dirs.setdefault((dx // g, dy // g), (dx, dy))
    pts = list(dirs.values())

    def half(v):
        return 0 if (v[1] > 0 or (v[1] == 0 and v[0] > 0)) else 1

    import functools

    def cmp(u, v):
        hu, hv = half(u), half(v)
        if hu != hv:
            return hu - hv
        c = u[0] * v[1] - u[1] * v[0]
        return -1 if c > 0 else (1 if c < 0 else 0)

    pts.sort(key=functools.cmp_to_key(cmp))
    return [(centre[0] + x, centre[1] + y) for x, y in pts]


def lattice_points_on_edges(vs, limit=40):
    out = []
    n = len(vs)
    for i in range(n):
        (x1, y1), (x2, y2) = vs[i], vs[(i + 1) % n]
        g = math.gcd(x2 - x1, y2 - y1)
        if g <= 1:
            continue
        sx, sy = (x2 - x1) // g, (y2 - y1) // g
        steps = range(1, g) if g - 1 <= 3 else (1, g // 2, g - 1)
        for k in steps:
            out.append((x1 + k * sx, y1 + k * sy))
            if len(out) >= limit:
                return out
    return out


def simple_polygons(points, n, first=None, canonical=False):
    """Every sequence of n distinct points (optionally starting with ``first``,
    optionally only those whose first vertex is their smallest one) that is a
    simple polygon.  Depth first with pruning; the result set equals
    ``[s for s in permutations(points, n) if is_simple_polygon(s)]`` (the check
    asserts this on a sample)."""
    points = [tuple(p) for p in points]

    def ok_new_edge(chain, c):
        """may the open chain be extended by edge chain[-1] -> c ?"""
        b = chain[-1]
        if len(chain) >= 2:
            a = chain[-2]
            if cross(a, b, c) == 0 and (b[0] - a[0]) * (c[0] - b[0]) + (b[1] - a[1]) * (c[1] - b[1]) < 0:
                return False
        for i in range(len(chain) - 2):
            if segments_touch(chain[i], chain[i + 1], b, c):
                return False
        return True

    def closes(chain):
        a, b, c0, c1 = chain[-2], chain[-1], chain[0], chain[1]
        # closing edge b -> c0 against all edges except its two neighbours
        for i in range(1, len(chain) - 2):
            if segments_touch(chain[i], chain[i + 1], b, c0):
                return False
        if cross(a, b, c0) == 0 and (b[0] - a[0]) * (c0[0] - b[0]) + (b[1] - a[1]) * (c0[1] - b[1]) < 0:
            return False
        if cross(b, c0, c1) == 0 and (c0[0] - b[0]) * (c1[0] - c0[0]) + (c0[1] - b[1]) * (c1[1] - c0[1]) < 0:
            return False
        return True

    def rec(chain, used):
        if len(chain) == n:
            if closes(chain):
                yield tuple(chain)
            return
        for p in points:
            if p in used:
                continue
            if canonical and p < chain[0]:
                continue
            if ok_new_edge(chain, p):
                used.add(p)
                chain.append(p)
                for s in rec(chain, used):
                    yield s
                chain.pop()
                used.discard(p)

    starts = [tuple(first)] if first is not None else points
    for s in starts:
        for poly in rec([s], {s}):
            yield poly


def untangled_polygon(rng, pts, max_rounds=200):
    """Random simple polygon through all the given points by 2-opt untangling
    of a random tour (may return None when it does not converge or points are
    degenerate); callers re-verify with is_simple_polygon."""
    tour = list(pts)
    rng.shuffle(tour)
    n = len(tour)
    for _ in range(max_rounds):
        changed = False
        for i in range(n):
            for j in range(i + 2, n):
                if i == 0 and j == n - 1:
                    continue
                a, b, c, d = tour[i], tour[(i + 1) % n], tour[j], tour[(j + 1) % n]
                if segments_touch(a, b, c, d):
                    tour[i + 1:j + 1] = reversed(tour[i + 1:j + 1])
                    changed = True
        if not changed:
            break
    return tour if is_simple_polygon(tour) else None
