#!/bin/bash
# validate MANIFEST.json and all evidence files against the schemas
cd "$(dirname "$0")/.."
python3-vt - <<'PY'
import json, jsonschema, glob
jsonschema.validate(json.load(open('MANIFEST.json')), json.load(open('/root/.vp/MANIFEST.schema.json')))
es = json.load(open('/root/.vp/EVIDENCE.schema.json'))
bad = 0
for f in sorted(glob.glob('evidence/*.json')):
    try:
        jsonschema.validate(json.load(open(f)), es)
    except Exception as e:
        bad += 1; print("INVALID", f, str(e)[:200])
print("manifest ok; evidence files:", len(glob.glob('evidence/*.json')), "invalid:", bad)
PY
