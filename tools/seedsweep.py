#!/venv/bin/python
"""Re-run the checks against every seeded change (each in its own scratch worktree of /repo HEAD, never in /repo) and
record in seeded/<id>/meta.json which check and tier catches it now.   usage: tools/seedsweep.py [ids...] [-j N]
The extra checks tried for a change (besides its own property's) are listed in meta['also_try']."""
import concurrent.futures, glob, json, os, re, subprocess, sys, tempfile
here = os.path.dirname(os.path.dirname(os.path.abspath(__file__)))

def run_one(sid):
    d = os.path.join(here, "seeded", sid)
    meta = json.load(open(os.path.join(d, "meta.json")))
    wt = tempfile.mkdtemp(prefix="wt-sweep-%s-" % sid, dir="/tmp")
    os.rmdir(wt)
    subprocess.check_call(["git", "-C", "/repo", "worktree", "add", "-q", "--detach", wt, "HEAD"])
    scratch = tempfile.mkdtemp(prefix="vfs-%s-" % sid, dir="/tmp")
    out = {"repo_head": subprocess.check_output(["git", "-C", "/repo", "rev-parse", "--short", "HEAD"]).decode().strip(), "results": []}
    try:
        r = subprocess.run(["git", "-C", wt, "apply", os.path.join(d, "patch.diff")], capture_output=True, text=True)
        if r.returncode:
            out["error"] = "patch does not apply: " + r.stderr[-200:]
            return sid, out
        env = dict(os.environ, VERIF_REPO=wt, VERIF_SCRATCH=scratch, VERIF_EVIDENCE_DIR=scratch + "/evidence", VERIF_REPLAY_DIR=scratch + "/replay")
        caught = None
        for pid in [meta["property"]] + list(meta.get("also_try", [])):
            for tier in ("quick", "thorough"):
                p = subprocess.run([os.path.join(here, "check"), pid, "--tier", tier], capture_output=True, text=True, env=env, cwd=here, timeout=3000)
                keys = re.findall(r"^VIOLATION property=\S+ replay=\S+ key=(.*?) count=", p.stdout, re.M)
                verdict = "VIOLATION" if keys else ("INCONCLUSIVE" if p.returncode == 2 else "held")
                out["results"].append({"check": pid, "tier": tier, "verdict": verdict, "keys": keys[:4]})
                if keys:
                    caught = caught or {"check": pid, "tier": tier}
                    break
            if caught and caught["check"] == meta["property"]:
                break
        out["caught_by"] = caught
    finally:
        subprocess.call(["git", "-C", "/repo", "worktree", "remove", "--force", wt])
        subprocess.call(["rm", "-rf", scratch])
    meta["own_checks_now"] = out
    json.dump(meta, open(os.path.join(d, "meta.json"), "w"), indent=1)
    return sid, out

if __name__ == "__main__":
    args = [a for a in sys.argv[1:] if not a.startswith("-j")]
    j = int(([a[2:] for a in sys.argv[1:] if a.startswith("-j")] or ["3"])[0])
    ids = args or sorted(os.path.basename(p) for p in glob.glob(os.path.join(here, "seeded", "*")) if os.path.isdir(p))
    with concurrent.futures.ThreadPoolExecutor(j) as ex:
        for sid, out in ex.map(run_one, ids):
            print(sid, out.get("caught_by") or out.get("error") or "MISSED", flush=True)
