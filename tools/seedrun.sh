#!/bin/bash
# tools/seedrun.sh <patch.diff> <check ids comma sep> [tier]
# applies the patch in a scratch worktree of /repo (never in /repo itself) and runs the checks against it
set -e
patch="$(realpath "$1")"; ids="$2"; tier="${3:-quick}"
wt=/tmp/wt-seed-$$
git -C /repo worktree add -q --detach $wt HEAD
trap "git -C /repo worktree remove --force $wt; rm -rf /tmp/vfscratch-$$" EXIT
git -C $wt apply "$patch"
cd "$(dirname "$0")/.."
for id in ${ids//,/ }; do
  VERIF_EVIDENCE_DIR=/tmp/vfscratch-$$/evidence VERIF_REPLAY_DIR=/tmp/vfscratch-$$/replay VERIF_REPO=$wt VERIF_SCRATCH=/tmp/vfscratch-$$ ./check $id --tier $tier 2>&1 | grep -E "^VIOLATION|HELD|INCONCLUSIVE|VIOLATED" | cut -c1-330 || true
done
