#!/venv/bin/python
"""Regenerate the data-driven tables of DESIGN.md (between <!-- BEGIN:x --> / <!-- END:x --> markers) from
known_findings.json, known_findings.d/*.json and seeded/*/meta.json."""
import glob, json, os, re, subprocess
here = os.path.dirname(os.path.dirname(os.path.abspath(__file__)))
known = json.load(open(os.path.join(here, "known_findings.json")))
for f in sorted(glob.glob(os.path.join(here, "known_findings.d", "*.json"))):
    known += json.load(open(f))

def cell(s, n=230):
    s = " ".join(str(s).split()).replace("|", "\\|")
    return s if len(s) <= n else s[:n - 1] + "…"

def fixed_table():
    rows = {}
    for k in known:
        if k["status"] != "fixed":
            continue
        what = re.sub(r"^fixed: property=\S+ \S+ ", "", k["what"])
        rows.setdefault((k["property"], k["commit"]), [what, 0])[1] += 1
    out = ["| property | fix commit in /repo | what failed (keys recorded) |", "|---|---|---|"]
    for (p, c), (w, n) in sorted(rows.items()):
        out.append("| %s | `%s` | %s (%d key%s) |" % (p, c, cell(w, 260), n, "" if n == 1 else "s"))
    return "\n".join(out)

def open_table():
    out = ["| property | key | what fails | why it is recorded rather than repaired |", "|---|---|---|---|"]
    for k in known:
        if k["status"] == "open":
            out.append("| %s | `%s` | %s | %s |" % (k["property"], cell(k["key"], 90), cell(k["what"], 300), cell(k.get("why_not_fixed", "see text below"), 200)))
    return "\n".join(out)

def seeded_table():
    out = ["| seeded change | what was changed | needs | caught by (tier) | note |", "|---|---|---|---|---|"]
    for d in sorted(glob.glob(os.path.join(here, "seeded", "*"))):
        mp = os.path.join(d, "meta.json")
        if not os.path.exists(mp):
            continue
        m = json.load(open(mp))
        now = m.get("own_checks_now", {})
        c = now.get("caught_by")
        caught = "%s (%s)" % (c["check"], c["tier"]) if c else ("**missed**" if now else "n/a")
        out.append("| %s | %s | %s | %s | %s |" % (os.path.basename(d), cell(m.get("summary"), 200), cell(m.get("needs"), 200), caught,
                                               cell(m.get("note", ""), 160)))
    return "\n".join(out)

def asbuilt_table():
    import importlib, sys
    sys.path[:0] = [here, "/repo", os.path.join(here, ".deps")]
    import collections.abc  # noqa
    out = ["| id | level | deciding technique | workload as built (RULE of the check: how cases are generated, what is distinct / non-trivial) |", "|---|---|---|---|"]
    for l in open(os.path.join(here, "properties.jsonl")):
        pid = json.loads(l)["id"]
        try:
            mod = importlib.import_module("vf.checks." + pid.lower())
        except Exception as e:
            out.append("| %s | - | - | (no check module: %s) |" % (pid, e))
            continue
        out.append("| %s | %s | %s | %s |" % (pid, mod.LEVEL, cell(getattr(mod, "META", {}).get("technique", ""), 200), cell(mod.RULE, 900)))
    return "\n".join(out)

gen = {"fixed": fixed_table, "open": open_table, "seeded": seeded_table, "asbuilt": asbuilt_table}
p = os.path.join(here, "DESIGN.md")
s = open(p).read()
for name, fn in gen.items():
    b, e = "<!-- BEGIN:%s -->" % name, "<!-- END:%s -->" % name
    if b in s and e in s:
        s = s[:s.index(b) + len(b)] + "\n" + fn() + "\n" + s[s.index(e):]
open(p, "w").write(s)
print("tables regenerated:", ", ".join(g for g in gen if "<!-- BEGIN:%s -->" % g in s))
