#!/bin/bash
# tools/seedaccept.sh CNN A|B [extra check ids]  -- confirm a sub-agent's seeded change and record it under seeded/
# 1. scratch worktree of /repo HEAD, demo passes on pristine; 2. apply patch, demo fails, pinned suite still passes;
# 3. run own checks (quick, then thorough when quick misses); 4. write seeded/<CNN>-<X>/{patch.diff,demo.py,meta.json}
id=$1; x=$2; extra=$3
src=${SEED_ROOT:-/tmp/mut}/$id-out
here="$(cd "$(dirname "$0")/.." && pwd)"
wt=/tmp/wt-acc-$id-$x
out=$here/seeded/$id-$x
git -C /repo worktree remove --force $wt 2>/dev/null
git -C /repo worktree add -q --detach $wt HEAD || exit 2
trap "git -C /repo worktree remove --force $wt; rm -rf /tmp/vfscratch-acc-$id-$x" EXIT
demo=$src/demo_$x.py
cd $wt
PYTHONPATH=$wt timeout 150 /venv/bin/python -W ignore $demo > /tmp/acc-$id-$x.pristine.out 2>&1; p0=$?
git apply --3way $src/$x.diff 2>/tmp/acc-$id-$x.apply.err || { echo "APPLY FAILED"; cat /tmp/acc-$id-$x.apply.err; exit 3; }
git reset -q
git diff > /tmp/acc-$id-$x.patch
PYTHONPATH=$wt timeout 150 /venv/bin/python -W ignore $demo > /tmp/acc-$id-$x.changed.out 2>&1; p1=$?
suite=$(/tmp/mut/suite.sh $wt | tail -1)
for try in 2 3; do   # the pinned suite uses wall-clock timing and fixed ports: retry when the loaded machine made it flaky
  echo "$suite" | grep -q "123 passed" && break
  sleep 5; suite=$(/tmp/mut/suite.sh $wt | tail -1)
done
echo "$id-$x demo pristine=$p0 changed=$p1 suite: $suite"
cd $here
ids="$id${extra:+,$extra}"
res=""
for c in ${ids//,/ }; do
  r=$(VERIF_EVIDENCE_DIR=/tmp/vfscratch-acc-$id-$x/evidence VERIF_REPLAY_DIR=/tmp/vfscratch-acc-$id-$x/replay VERIF_REPO=$wt VERIF_SCRATCH=/tmp/vfscratch-acc-$id-$x timeout 900 ./check $c --tier quick 2>&1 | grep -E "^VIOLATION|HELD|INCONCLUSIVE|VIOLATED" | cut -c1-300)
  echo "  quick $c: $(echo "$r" | head -3)"
  v="quick:$(echo "$r" | grep -c '^VIOLATION')"
  if ! echo "$r" | grep -q '^VIOLATION'; then
    r2=$(VERIF_EVIDENCE_DIR=/tmp/vfscratch-acc-$id-$x/evidence VERIF_REPLAY_DIR=/tmp/vfscratch-acc-$id-$x/replay VERIF_REPO=$wt VERIF_SCRATCH=/tmp/vfscratch-acc-$id-$x timeout 1800 ./check $c --tier thorough 2>&1 | grep -E "^VIOLATION|HELD|INCONCLUSIVE|VIOLATED" | cut -c1-300)
    echo "  thorough $c: $(echo "$r2" | head -3)"
    v="$v thorough:$(echo "$r2" | grep -c '^VIOLATION')"
    r="$r
$r2"
  fi
  res="$res$c => $v; "
  echo "$r" > /tmp/acc-$id-$x.$c.check.out
done
if [ $p0 -eq 0 ] && [ $p1 -ne 0 ] && echo "$suite" | grep -q "123 passed"; then
  mkdir -p $out
  cp /tmp/acc-$id-$x.patch $out/patch.diff
  cp $demo $out/demo.py
  /venv/bin/python - "$id" "$x" "$src/$x.json" "$out/meta.json" "$res" "$suite" <<'PY'
import json, sys, subprocess
pid, x, src, dst, res, suite = sys.argv[1:7]
try: m = json.load(open(src))
except Exception: m = {}
head = subprocess.check_output(["git","-C","/repo","rev-parse","--short","HEAD"]).decode().strip()
meta = {"property": pid, "variant": x, "summary": m.get("summary"), "needs": m.get("needs"), "files": m.get("files"),
        "source": "independent sub-agent given only the property text and a scratch worktree",
        "confirmed": {"repo_head": head, "demo_exit_pristine": 0, "demo_exit_changed": "non-zero", "pinned_suite_with_change": suite.strip(),
                      "how": "tools/seedaccept.sh: scratch worktree of /repo HEAD; demo.py run before and after `git apply patch.diff`; pinned suite via /tmp/mut/suite.sh"},
        "own_checks": res.strip()}
json.dump(meta, open(dst, "w"), indent=1)
PY
  echo "  ACCEPTED -> $out ($res)"
else
  echo "  REJECTED (pristine=$p0 changed=$p1 suite=$suite)"
fi
