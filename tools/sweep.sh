#!/bin/bash
# tools/sweep.sh <tier> <seeds comma sep> [ids...]   -- runs checks sequentially, prints one line per run
tier=$1; seeds=$2; shift 2
cd "$(dirname "$0")/.."
ids="$@"; [ -z "$ids" ] && ids=$(cat tools/ready.txt)
mkdir -p .scratch/sweep
for seed in ${seeds//,/ }; do
 for id in $ids; do
  s=$(date +%s)
  VERIF_SEED=$seed timeout 3000 ./check $id --tier $tier > .scratch/sweep/$id.$tier.$seed.out 2>&1; rc=$?
  e=$(date +%s)
  echo "$id tier=$tier seed=$seed rc=$rc $((e-s))s :: $(grep -E '^(VIOLATION|INCONCLUSIVE)' .scratch/sweep/$id.$tier.$seed.out | cut -c1-300 | head -3 | tr '\n' '|')"
 done
done
