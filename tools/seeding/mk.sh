#!/bin/bash
# mk.sh CNN : create worktree and print prompt path
id=$1
git -C /repo worktree add -q --detach /tmp/mut/$id HEAD 2>&1
mkdir -p /tmp/mut/$id-out
python3 /tmp/mut/mkprompt.py $id > /tmp/mut/$id.prompt
wc -c /tmp/mut/$id.prompt
