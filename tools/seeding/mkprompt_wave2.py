import json, sys
pid = sys.argv[1]
props = {json.loads(l)["id"]: json.loads(l) for l in open("/verif/properties.jsonl")}
p = props[pid]
anch = p["anchors"]
print(f"""You are a careful software engineer helping to evaluate a verification effort by SEEDING realistic defects. You work ONLY inside the git worktree /tmp/mut2/{pid} (a scratch checkout of the Python repository "ioflo", a flow-based automation framework: FloScript DSL builder, hierarchical frame state machines, generator-based scheduler "skedder", and its own non-blocking TCP/HTTP/UDP I/O stack). Python interpreter: /venv/bin/python (3.12, ioflo's dependencies installed; to run code against your worktree use `cd /tmp/mut2/{pid} && PYTHONPATH=/tmp/mut2/{pid} /venv/bin/python ...`; note `import collections.abc` is not needed). There is no network. Do NOT read or touch /verif or /repo or /root (they are off limits — your work must be independent), and do not use git commit.

PROPERTY {pid}: {p['title']}
Statement: {p['statement']}
Scope (quantifier): {p['quantifier']['text']}
Why the existing tests cannot settle it: {p['why_tests_cant']}
Code it is anchored in: files {anch.get('files')}; mechanisms: {json.dumps(anch.get('mechanism'))}

YOUR TASK: produce TWO independent changes (C and D, different mechanisms, each a separate small patch against the pristine worktree) to the ioflo source (under /tmp/mut2/{pid}/ioflo, not its tests) such that each change
  1. BREAKS the property above (the code still imports/compiles);
  2. still PASSES the existing test suite: `/tmp/mut/suite.sh /tmp/mut2/{pid}` (a wrapper around pytest that serialises suite runs with a lock because the tests use fixed TCP ports and other engineers run it concurrently; always use this wrapper, never call pytest on the whole suite directly; you may run single test files directly) must report 123 passed (5 tests that fail on the pristine tree already are deselected by the wrapper; run the suite once on the pristine worktree first to see the baseline; it takes ~25 s);
  3. is REALISTIC: the kind of mistake a developer makes in a refactor or an "optimisation" (off-by-one, wrong comparison, stale variable, forgotten update of a second data structure, reordered statements, lost branch, wrong default, state not reset...), looking plausible in review — not sabotage like `raise` or `if x == 12345`;
  4. needs SOMETHING SPECIFIC TO MANIFEST — a particular interleaving/order of service calls, a fault or partial result at a particular point, a multi-step sequence of operations, an unusual but legal input, or two cooperating sites that each look fine alone — so that ordinary simple use (and the existing tests) does not expose it at once. Prefer subtle over blatant, but it must be a definite violation of the statement, not a matter of taste.
  For each change also write a DEMONSTRATION: a small self-contained Python program (demo_C.py / demo_D.py, stdlib + ioflo only, run as `cd <tree> && PYTHONPATH=<tree> /venv/bin/python demo_C.py`, finishing in < 60 s, no fixed TCP ports below 20000, bounded loops only) that exits 0 on the pristine tree and exits 1 (printing what went wrong) on the changed tree. It must exercise the real ioflo code through its public API (scripts built with the Builder/Skedder, or the public classes), not re-implement it.

PROCEDURE: read the anchored code until you understand it; pick the two mechanisms; for each: edit, run your demo (must fail), run the test suite (must pass 123), save `git diff > /tmp/mut2/{pid}-out/C.diff` (or D.diff), then `git checkout -- .` to restore the pristine tree, confirm the demo passes on the pristine tree. Create /tmp/mut2/{pid}-out/ yourself. Write /tmp/mut2/{pid}-out/C.json and D.json: {{"property": "{pid}", "summary": "<one sentence what was changed>", "needs": "<what specific condition is needed for the violation to manifest>", "files": [...], "tests_passed": 123, "demo": "demo_C.py", "demo_pristine_exit": 0, "demo_changed_exit": 1}}. Put the demos in /tmp/mut2/{pid}-out/ too. Leave the worktree pristine (git status clean) at the end.
Helpful: always wrap experiments in `timeout 120 ...` (a skedder that never stops is a known hazard; bound every run). If after serious effort (about 40 minutes per change) one of the two cannot be made to satisfy all four conditions, deliver only one and say why.
FINAL MESSAGE: for C and D: the summary, the needs, and the exact commands you ran with their results (demo on changed tree, demo on pristine tree, test suite count).""")
