#!/bin/bash
# suite.sh <tree> : run the pinned ioflo test suite in <tree> (serialised with a lock: the tests use fixed TCP ports)
tree=${1:-.}
cd "$tree" || exit 2
exec flock /tmp/mut/suite.lock env -u IOFLO_VERIF PYTHONPATH="$tree" /venv/bin/python -m pytest -q -p no:cacheprovider --timeout=900 --continue-on-collection-errors \
 --deselect ioflo/aio/tcp/test/test_tcping.py::BasicTestCase::testTLSConnectionVerifyBothTLSv1 \
 --deselect ioflo/aio/tcp/test/test_tcping.py::BasicTestCase::testTLSConnectionVerifyNeither \
 --deselect ioflo/aio/tcp/test/test_tcping.py::BasicTestCase::testTcpClientServer \
 --deselect ioflo/aio/tcp/test/test_tcping.py::BasicTestCase::testTcpClientServerService \
 --deselect ioflo/aio/tcp/test/test_tcping.py::BasicTestCase::testTcpClientServerServiceCat 2>&1 | tail -15
