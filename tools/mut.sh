#!/bin/bash
# tools/mut.sh <check ids comma sep> <file relative to repo> <python-regex-or-literal old> <new>
# applies a literal replacement (first occurrence) in a scratch worktree and runs the quick tier there
set -e
ids="$1"; file="$2"; old="$3"; new="$4"
wt=/tmp/wt-main-$$
git -C /repo worktree add -q --detach $wt HEAD
trap "git -C /repo worktree remove --force $wt" EXIT
/venv/bin/python - "$wt/$file" "$old" "$new" <<'PY'
import sys
p, old, new = sys.argv[1:4]
s = open(p).read()
assert old in s, "pattern not found"
open(p, "w").write(s.replace(old, new, 1))
PY
for id in ${ids//,/ }; do
  VERIF_EVIDENCE_DIR=/tmp/vfscratch-$$/evidence VERIF_REPLAY_DIR=/tmp/vfscratch-$$/replay VERIF_REPO=$wt VERIF_SCRATCH=/tmp/vfscratch-$$ ./check $id --tier ${TIER:-quick} | grep -E "VIOLATION|HELD|INCONCLUSIVE|VIOLATED" | cut -c1-260 || true
done
rm -rf /tmp/vfscratch-$$
