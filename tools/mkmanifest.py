#!/venv/bin/python
"""Regenerate MANIFEST.json from the check modules' META tables.
A property without a vf/checks/cNN.py module (or with META['claimed'] False) is listed under not_applicable."""
import collections.abc, importlib, json, os, sys
here = os.path.dirname(os.path.dirname(os.path.abspath(__file__)))
sys.path[:0] = [here, "/repo", os.path.join(here, ".deps")]
props = [json.loads(l) for l in open(os.path.join(here, "properties.jsonl"))]
checks, na = [], []
for p in props:
    pid = p["id"]
    path = os.path.join(here, "vf", "checks", pid.lower() + ".py")
    ready = set(open(os.path.join(here, "tools", "ready.txt")).read().split())
    if not os.path.exists(path) or pid not in ready:
        na.append({"property_id": pid, "reason": "no check registered yet in this round (runtime-monitoring design in DESIGN.md section 3 is applicable; implementation pending)"})
        continue
    mod = importlib.import_module("vf.checks." + pid.lower())
    meta = getattr(mod, "META", {})
    if meta.get("claimed") is False:
        na.append({"property_id": pid, "reason": meta["reason"]})
        continue
    checks.append({
        "property_id": pid,
        "quick_cmd": "./check %s --tier quick" % pid,
        "thorough_cmd": "./check %s --tier thorough" % pid,
        "evidence_file": "evidence/%s.json" % pid,
        "replay_cmd_template": "cat {path}",
        "engine": meta.get("engine", "vf"),
        "technique": meta.get("technique", "runtime monitoring: executable model / trace oracle over generated workloads"),
        "level_claimed": {"category": mod.LEVEL,
                          "text": meta.get("level_text", mod.RULE),
                          "design_ref": "DESIGN.md section 3, " + pid},
        "level_note": meta.get("level_note", "Trusts CPython, the harness' own reference model and generators; holds only for the executions produced."),
    })
man = {
    "version": 1,
    "setup_cmd": "/venv/bin/python -m pip install --no-index --quiet --find-links /opt/veriftools/wheels --target /verif/.deps icontract deal || true",
    "hooks": {"guard": "IOFLO_VERIF",
              "enable": "checks run /repo's working tree directly (PYTHONPATH=/repo, python -B, no build step) with IOFLO_VERIF=1; no guarded source hooks exist: monitors attach from the harness (proxies, doubles, sys.monitoring, icontract)",
              "baseline_off_cmd": "cd /repo && env -u IOFLO_VERIF /venv/bin/python -m pytest -ra -q -p no:cacheprovider --timeout=900 --continue-on-collection-errors",
              "source_commits": [], "add_only": True},
    "engines": [
        {"name": "core", "path": "vf/core.py", "serves_properties": [c["property_id"] for c in checks],
         "kind_free_text": "runner, three-valued verdicts, evidence writer, known-finding matching by mechanism key, sharding over child processes"}],
    "checks": checks,
    "not_applicable": na,
    "notes": "Single entry point ./check <ID> --tier quick|thorough (VERIF_SEED honoured). Exit 0 held, 1 violation, 2 inconclusive (floors not reached / watchdog). known_findings.json lists open findings by mechanism key and fixed: entries.",
}
json.dump(man, open(os.path.join(here, "MANIFEST.json"), "w"), indent=1)
print("claimed", len(checks), "not_applicable", len(na))
