import os, sys, tempfile
from ioflo.base import framing, skedding
from ioflo.aid.consoling import getConsole
console = getConsole()
console.reinit(verbosity=console.Wordage.mute)
events = []
_enter = framing.Frame.enter
_exit = framing.Frame.exit
def enter(self):
    events.append(("enter", self.framer.name, self.name)); return _enter(self)
def exit_(self):
    events.append(("exit", self.framer.name, self.name)); return _exit(self)
framing.Frame.enter = enter
framing.Frame.exit = exit_
def run(script):
    tmp = tempfile.mkdtemp(prefix="c06probe")
    path = os.path.join(tmp, "p.flo")
    open(path, "w").write(script)
    sk = skedding.Skedder(name="p", period=0.125, real=False, filepath=path)
    assert sk.build()
    sk.run()
    entered = []
    bad = []
    for k, fr, n in events:
        key = (fr, n)
        if k == "enter":
            if key in entered: bad.append("double enter %s" % (key,))
            entered.append(key)
        else:
            if key not in entered: bad.append("exit without enter %s" % (key,))
            else: entered.remove(key)
    for e in events: print(e)
    print("still entered at end:", entered)
    print("problems:", bad)
    return 1 if (bad or entered) else 0
