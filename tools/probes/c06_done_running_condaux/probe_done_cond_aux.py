"""pristine probe: another framer says 'done cx' while conditional aux cx is active"""
import sys
from probe_common import run
S = """
house p1
  framer main be active first m0
    frame m0
      go mend if elapsed >= 2.0
      aux cx if elapsed >= 0.25
    frame m1 in m0
      print m1
    frame mend
      bid stop all

  framer killer be active first k0
    frame k0
      go next if elapsed >= 0.75
    frame k1
      done cx
      go next
    frame k2
      print idle

  framer cx be aux first c0
    frame c0
      print c0
    frame c1 in c0
      print c1
"""
sys.exit(run(S))
