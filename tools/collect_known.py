#!/venv/bin/python
"""Hand tool (never run by a check): turn the replay files of property <ID> into *open* entries of
known_findings.d/<ID>.json after a human has looked at them.  usage: tools/collect_known.py C14"""
import glob, json, os, sys
pid = sys.argv[1]
here = os.path.dirname(os.path.dirname(os.path.abspath(__file__)))
path = os.path.join(here, "known_findings.d", pid + ".json")
cur = json.load(open(path)) if os.path.exists(path) else []
main = json.load(open(os.path.join(here, "known_findings.json")))
have = set(e["key"] for e in cur + main if e["property"] == pid)
for f in sorted(glob.glob(os.path.join(here, "replay", pid, "*.json"))):
    d = json.load(open(f))
    if d["key"] in have:
        continue
    w = d["witnesses"][0] if d["witnesses"] else {"what": d["key"], "witness": None}
    wit = w.get("witness") or {}
    ex = wit.get("script") or wit.get("program") or json.dumps(wit)[:600]
    cur.append({"property": pid, "status": "open", "key": d["key"], "what": w["what"][:300], "example": ex[-700:]})
    have.add(d["key"])
    print("added", d["key"])
json.dump(cur, open(path, "w"), indent=1)
